import JmesVerif.Lemmas.SemConform
/-
Why `C01_conformance` needs a bound that accounts for flatten: hereditary smallness of the
document (every array ≤ i32::MAX) is not preserved by `[]`, which concatenates.  A machine-checked
counterexample to the unconditional statement.
-/
namespace JmesVerif
open Spec

/-- on an array longer than `i32::MAX` the slice loop `i = i.saturating_add(step)` never reaches
`len`: the model reports the hang as `Fault.fuel` -/
theorem loopUp_stuck {α : Type} (xs : List α) (hlen : I32_MAX < (xs.length : Int)) :
    ∀ (fuel : Nat) (i : Int), 0 ≤ i → i ≤ I32_MAX → loopUp xs xs.length 1 fuel i = .error .fuel
  | 0, _, _, _ => by simp [loopUp]
  | fuel + 1, i, h0, h1 => by
    have hi : i.toNat < xs.length := by unfold I32_MAX at *; omega
    have ha0 : 0 ≤ addI32 i 1 := by unfold addI32 I32_MAX I32_MIN at *; split <;> (try split) <;> omega
    have ha1 : addI32 i 1 ≤ I32_MAX := by unfold addI32 I32_MAX I32_MIN at *; split <;> (try split) <;> omega
    have ih := loopUp_stuck xs hlen fuel (addI32 i 1) ha0 ha1
    have hlt : i < (xs.length : Int) := by unfold I32_MAX at *; omega
    have hn : ¬ i < 0 := by omega
    simp only [loopUp, hlt, if_true, hn, if_false, List.getElem?_eq_getElem hi, ih]

theorem sliceList_stuck {α : Type} (xs : List α) (hlen : I32_MAX < (xs.length : Int)) :
    sliceList xs none none 1 = .error .fuel := by
  unfold sliceList
  have h0 : ¬ (xs.length : Int) = 0 := by unfold I32_MAX at hlen; omega
  simp only [h0, if_false, sliceA, sliceB]
  simp only [show (1 : Int) > 0 by omega, if_true, show ¬ (1 : Int) < 0 by omega, if_false]
  exact loopUp_stuck xs hlen _ 0 (by omega) (by unfold I32_MAX; omega)

theorem projectEach_id (rt : Registry) : ∀ (fuel : Nat) (xs : List Val) (off : Nat),
    (∀ x ∈ xs, x.isNull = false) →
    projectEach rt fuel xs (.identity 0) off = .error .fuel ∨
    projectEach rt fuel xs (.identity 0) off = .ok (xs, off)
  | 0, _, _, _ => Or.inl (by simp [projectEach])
  | fuel + 1, [], off, _ => Or.inr (by simp [projectEach])
  | fuel + 1, x :: rest, off, h => by
    simp only [projectEach]
    cases fuel with
    | zero => left; simp [interp]
    | succ k =>
      simp only [interp]
      rcases projectEach_id rt (k + 1) rest off (fun y hy => h y (by simp [hy])) with h1 | h1
      · left; rw [h1]
      · right; rw [h1]; simp [h x (by simp)]

/-- the tree of `[] | [:]` -/
def cexAst : Ast :=
  .subexpr 0 (.projection 0 (.flatten 0 (.identity 0)) (.identity 0))
    (.projection 0 (.slice 0 none none 1) (.identity 0))

def cexExpr : Expr :=
  .mk (.flatten .none) [.pipe (.mk (.slice ⟨none, none, none⟩ .none) [])]

theorem cexExpr_ast : cexExpr.ast = cexAst := rfl
theorem cexExpr_core : Sem.exprCore cexExpr = true := rfl
theorem cexExpr_small : cexExpr.Small := by
  simp [cexExpr, Expr.Small, Nud.Small, Rhs.Small, ledsSmall, Led.Small]

theorem cex_general (rt : Registry) (ys : List Val) (hnn : ∀ y ∈ ys, y.isNull = false)
    (hbig : I32_MAX < ((ys ++ ys).length : Int)) (fuel off : Nat) :
    resultOf (interp rt fuel (.arr [.arr ys, .arr ys]) cexAst off) = none := by
  unfold cexAst
  rcases fuel with _ | _ | _ | _ | n
  · simp [interp, resultOf]
  · simp [interp, resultOf]
  · simp [interp, resultOf]
  · simp [interp, resultOf]
  · simp only [interp, List.flatMap_cons, List.flatMap_nil, List.append_nil]
    rcases projectEach_id rt (n + 2) (ys ++ ys) off
        (fun y hy => hnn y (by rcases List.mem_append.mp hy with h | h <;> exact h)) with h1 | h1
    · rw [h1]; rfl
    · rw [h1]
      simp only [interp, show ¬ ((1 : Int) = 0) by omega, if_false, sliceList_stuck _ hbig]
      rfl

theorem cex_of_list (ys : List Val) (hmem : ∀ y ∈ ys, y = .bool true) (hlen : ys.length = 1073741824) :
    (Val.arr [.arr ys, .arr ys]).isJson = true ∧ (Val.arr [.arr ys, .arr ys]).Small ∧
    (∃ v, Sem.expr (Val.arr [.arr ys, .arr ys]) cexExpr = some v) ∧
    ∀ (rt : Registry) (fuel off : Nat),
      resultOf (interp rt fuel (Val.arr [.arr ys, .arr ys]) cexExpr.ast off) ≠
        some (Sem.expr (Val.arr [.arr ys, .arr ys]) cexExpr) := by
  have hx' : ∀ x ∈ [Val.arr ys, Val.arr ys], x = .arr ys := by
    intro x hx
    rcases List.mem_cons.mp hx with h | hx
    · exact h
    · rcases List.mem_cons.mp hx with h | hx
      · exact h
      · cases hx
  refine ⟨?_, ?_, ?_, ?_⟩
  · refine arr_json.mpr fun x hx => ?_
    rw [hx' x hx]
    exact arr_json.mpr fun y hy => by rw [hmem y hy]; rfl
  · refine arr_within.mpr ⟨by simp [CAP], fun x hx => ?_⟩
    rw [hx' x hx]
    exact arr_within.mpr ⟨by rw [hlen]; decide, fun y hy => by rw [hmem y hy]; trivial⟩
  · simp only [cexExpr, Sem.expr, Sem.nud, Sem.rhs, Sem.leds, Sem.led]
    have h1 : ∀ xs : List Val, Sem.optMapM (fun x => some x) xs = some xs := by
      intro xs; induction xs with
      | nil => rfl
      | cons x r ih => simp [Sem.optMapM, ih]
    simp only [h1, Option.map_some, SliceHdr.step]
    simp
  · intro rt fuel off
    rw [cexExpr_ast, cex_general rt ys (fun y hy => by rw [hmem y hy]; rfl)
      (by rw [List.length_append, hlen]; unfold I32_MAX; omega)]
    simp

/-- **The unconditional statement is false**: a core expression (`[] | [:]`, no literals, no
multi-selects) and a JSON document all of whose arrays have at most 2^30 ≤ i32::MAX elements, on
which the interpreter never returns what the semantics says (the slice loop hangs / the model
reports a panic), whatever the fuel. -/
theorem C01_unconditional_false :
    ∃ (e : Expr) (d : Val), Sem.exprCore e = true ∧ e.Small ∧ d.isJson = true ∧ d.Small ∧
      (∃ v, Sem.expr d e = some v) ∧
      ∀ (rt : Registry) (fuel off : Nat),
        resultOf (interp rt fuel d e.ast off) ≠ some (Sem.expr d e) :=
  have h := cex_of_list (List.replicate 1073741824 (.bool true))
    (fun _ hy => (List.mem_replicate.mp hy).2) List.length_replicate
  ⟨cexExpr, _, cexExpr_core, cexExpr_small, h.1, h.2.1, h.2.2.1, h.2.2.2⟩

end JmesVerif

#print axioms JmesVerif.C01_unconditional_false
