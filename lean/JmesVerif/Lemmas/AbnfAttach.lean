import JmesVerif.Spec.Abnf
/-
Completeness of `Legal` w.r.t. the published ABNF, part 1: the *attach* lemma.

Given a legal (and deviation-free) tree and one more application `it` (a postfix such as `.x`, `[0]`,
`[?p]`, or a binary application `|| e`), there is a legal tree spelling the concatenated token string:
the application is taken by the innermost level on the right spine of the tree whose ambient binding
power is below the application's power (shunting-yard step), or it replaces an empty projection
right-hand side.
-/
namespace JmesVerif
open GrammarCheck

/-! ### deviation-freeness -/

abbrev Cl (d : Dev) : Prop := d.languageClean

theorem Cl_add (a b : Dev) : Cl (a.add b) ↔ Cl a ∧ Cl b := by
  simp only [Cl, Dev.languageClean, Dev.add, Nat.add_eq_zero_iff]
  constructor
  · rintro ⟨⟨a1, b1⟩, ⟨a2, b2⟩, a3, b3⟩; exact ⟨⟨a1, a2, a3⟩, b1, b2, b3⟩
  · rintro ⟨⟨a1, a2, a3⟩, b1, b2, b3⟩; exact ⟨⟨a1, b1⟩, ⟨a2, b2⟩, a3, b3⟩

theorem Cl_empty : Cl {} := ⟨rfl, rfl, rfl⟩

theorem Cl_f16 (n : Nat) : Cl { f16 := n } := ⟨rfl, rfl, rfl⟩

theorem not_Cl_f5 : ¬ Cl { f5 := 1 } := by
  simp [Cl, Dev.languageClean]

theorem not_Cl_f4 : ¬ Cl { f4 := 1 } := by
  simp [Cl, Dev.languageClean]

theorem not_Cl_f3 : ¬ Cl { f3 := 1 } := by
  simp [Cl, Dev.languageClean]

/-! ### head tags -/

def Nud.tag : Nud → Nat
  | .at => 0 | .field _ => 1 | .qfield _ => 2 | .call _ _ => 3 | .lit _ => 4 | .star _ => 5
  | .idx _ => 6 | .slice _ _ => 7 | .wildIdx _ => 8 | .mlist _ => 9 | .flatten _ => 10
  | .mhash _ => 11 | .not _ => 12 | .filter _ _ => 13 | .paren _ => 14 | .expref _ => 15

def Expr.headTag : Expr → Nat
  | .mk h _ => h.tag

theorem Nud.isBracketHead_tag {h h' : Nud} (e : h'.tag = h.tag) : h'.isBracketHead = h.isBracketHead := by
  cases h <;> cases h' <;> simp [Nud.tag] at e <;> rfl

theorem Nud.isDotHead_tag {h h' : Nud} (e : h'.tag = h.tag) : h'.isDotHead = h.isDotHead := by
  cases h <;> cases h' <;> simp [Nud.tag] at e <;> rfl

theorem Nud.isStar_tag {h h' : Nud} (e : h'.tag = h.tag) : h'.isStar = h.isStar := by
  cases h <;> cases h' <;> simp [Nud.tag] at e <;> rfl

theorem Expr.headIsBracket_tag {e e' : Expr} (h : e'.headTag = e.headTag) : e'.headIsBracket = e.headIsBracket := by
  cases e; cases e'; exact Nud.isBracketHead_tag h

theorem Expr.headIsDot_tag {e e' : Expr} (h : e'.headTag = e.headTag) : e'.headIsDot = e.headIsDot := by
  cases e; cases e'; exact Nud.isDotHead_tag h

theorem exprDev_false_clean_q (h : Nud) (ls : List Led) :
    Cl (exprDev false (.mk h ls)) ↔ Cl (nudDev h) ∧ Cl (ledsDev ls) ∧ h.tag ≠ 15 := by
  cases h <;> simp [exprDev, Cl_add, Cl_f16, Nud.tag, not_Cl_f5]

theorem exprDev_true_of_false (e : Expr) (h : Cl (exprDev false e)) : Cl (exprDev true e) := by
  obtain ⟨hd, ls⟩ := e
  cases hd <;> simp_all [exprDev, Cl_add, Cl_f16, not_Cl_f5]

theorem rhsDev_bracket_clean_q (e : Expr) :
    Cl (rhsDev (.bracket e)) ↔ Cl (exprDev false e) ∧ e.headTag ≠ 9 := by
  obtain ⟨h, ls⟩ := e
  cases h <;> simp [rhsDev, Cl_add, Cl_empty, Expr.headTag, Nud.tag, not_Cl_f4]

theorem Led.lbp_le_INF (l : Led) : l.lbp ≤ INF := by
  cases l <;> simp [Led.lbp, INF]

theorem ledDev_clean_notCall (l : Led) (h : Cl (ledDev l)) : l.isCallDev = false := by
  cases l <;> simp_all [ledDev, Led.isCallDev, Cl_add, not_Cl_f3]

theorem ledsDev_clean_notCall : ∀ (ls : List Led), Cl (ledsDev ls) → ∀ l ∈ ls, l.isCallDev = false
  | [], _ => by simp
  | l :: ls, h => by
    simp only [ledsDev, Cl_add] at h
    intro l' hl'
    rcases List.mem_cons.1 hl' with rfl | hl'
    · exact ledDev_clean_notCall _ h.1
    · exact ledsDev_clean_notCall ls h.2 l' hl'

theorem callDevOk_of_clean (h : Nud) : ∀ (ls : List Led), Cl (ledsDev ls) → callDevOk h ls
  | [], _ => by simp [callDevOk]
  | l :: ls, hc => by
    simp only [callDevOk]
    have := ledsDev_clean_notCall (l :: ls) hc
    refine ⟨fun hl => ?_, fun l' hl' => this l' (List.mem_cons_of_mem _ hl')⟩
    rw [this l (List.mem_cons_self ..)] at hl; cases hl

/-! ### items -/

/-- one application to be appended: as a `Led`, and (unless it binds below 10) as a projection
right-hand side -/
structure Item where
  led : Led
  legal : led.Legal
  clean : Cl (ledDev led)
  rhs : led.lbp ≤ 9 ∨ ∀ k, ∃ r : Rhs, r.Legal k ∧ r.toks = led.toks ∧ Cl (rhsDev r)

/-! ### the attach lemma -/

mutual
theorem attachNud (it : Item) : ∀ h : Nud, h.Legal → Cl (nudDev h) →
    (∃ h' : Nud, h'.Legal ∧ h'.toks = h.toks ++ it.led.toks ∧ h'.tag = h.tag ∧ Cl (nudDev h'))
      ∨ it.led.lbp ≤ h.follow
  | .at, _, _ => Or.inr (Led.lbp_le_INF _)
  | .field _, _, _ => Or.inr (Led.lbp_le_INF _)
  | .qfield _, _, _ => Or.inr (Led.lbp_le_INF _)
  | .call _ _, _, _ => Or.inr (Led.lbp_le_INF _)
  | .lit _, _, _ => Or.inr (Led.lbp_le_INF _)
  | .idx _, _, _ => Or.inr (Led.lbp_le_INF _)
  | .mlist _, _, _ => Or.inr (Led.lbp_le_INF _)
  | .mhash _, _, _ => Or.inr (Led.lbp_le_INF _)
  | .paren _, _, _ => Or.inr (Led.lbp_le_INF _)
  | .star r, hl, hc => by
    simp only [Nud.Legal] at hl; simp only [nudDev] at hc
    rcases attachRhs it r 20 hl hc with ⟨r', h1, h2, h3⟩ | h
    · exact Or.inl ⟨.star r', by simpa [Nud.Legal] using h1, by simp [Nud.toks, h2], rfl, by simpa [nudDev] using h3⟩
    · exact Or.inr (by simpa [Nud.follow] using h)
  | .slice s r, hl, hc => by
    simp only [Nud.Legal] at hl; simp only [nudDev] at hc
    rcases attachRhs it r 20 hl hc with ⟨r', h1, h2, h3⟩ | h
    · exact Or.inl ⟨.slice s r', by simpa [Nud.Legal] using h1, by simp [Nud.toks, h2], rfl, by simpa [nudDev] using h3⟩
    · exact Or.inr (by simpa [Nud.follow] using h)
  | .wildIdx r, hl, hc => by
    simp only [Nud.Legal] at hl; simp only [nudDev] at hc
    rcases attachRhs it r 20 hl hc with ⟨r', h1, h2, h3⟩ | h
    · exact Or.inl ⟨.wildIdx r', by simpa [Nud.Legal] using h1, by simp [Nud.toks, h2], rfl, by simpa [nudDev] using h3⟩
    · exact Or.inr (by simpa [Nud.follow] using h)
  | .flatten r, hl, hc => by
    simp only [Nud.Legal] at hl; simp only [nudDev] at hc
    rcases attachRhs it r 9 hl hc with ⟨r', h1, h2, h3⟩ | h
    · exact Or.inl ⟨.flatten r', by simpa [Nud.Legal] using h1, by simp [Nud.toks, h2], rfl, by simpa [nudDev] using h3⟩
    · exact Or.inr (by simpa [Nud.follow] using h)
  | .filter p r, hl, hc => by
    simp only [Nud.Legal] at hl; simp only [nudDev, Cl_add] at hc
    rcases attachRhs it r 21 hl.2 hc.2 with ⟨r', h1, h2, h3⟩ | h
    · exact Or.inl ⟨.filter p r', by simpa [Nud.Legal] using ⟨hl.1, h1⟩, by simp [Nud.toks, h2], rfl,
        by simpa [nudDev, Cl_add] using ⟨hc.1, h3⟩⟩
    · exact Or.inr (by simpa [Nud.follow] using h)
  | .not e, hl, hc => by
    simp only [Nud.Legal] at hl; simp only [nudDev] at hc
    rcases attachExpr it e 45 hl hc with ⟨e', h1, h2, _, h3⟩ | h
    · exact Or.inl ⟨.not e', by simpa [Nud.Legal] using h1, by simp [Nud.toks, h2], rfl, by simpa [nudDev] using h3⟩
    · exact Or.inr (by simp only [Nud.follow]; omega)
  | .expref e, hl, hc => by
    simp only [Nud.Legal] at hl; simp only [nudDev] at hc
    rcases attachExpr it e 0 hl hc with ⟨e', h1, h2, _, h3⟩ | h
    · exact Or.inl ⟨.expref e', by simpa [Nud.Legal] using h1, by simp [Nud.toks, h2], rfl, by simpa [nudDev] using h3⟩
    · exact Or.inr (by simp only [Nud.follow]; omega)
theorem attachLed (it : Item) : ∀ l : Led, l.Legal → Cl (ledDev l) →
    (∃ l' : Led, l'.Legal ∧ l'.toks = l.toks ++ it.led.toks ∧ l'.lbp = l.lbp ∧ Cl (ledDev l'))
      ∨ it.led.lbp ≤ l.follow
  | .index _, _, _ => Or.inr (Led.lbp_le_INF _)
  | .callDev _, _, _ => Or.inr (Led.lbp_le_INF _)
  | .dotStar r, hl, hc => by
    simp only [Led.Legal] at hl; simp only [ledDev] at hc
    rcases attachRhs it r 20 hl hc with ⟨r', h1, h2, h3⟩ | h
    · exact Or.inl ⟨.dotStar r', by simpa [Led.Legal] using h1, by simp [Led.toks, h2], rfl, by simpa [ledDev] using h3⟩
    · exact Or.inr (by simpa [Led.follow] using h)
  | .sliceL s r, hl, hc => by
    simp only [Led.Legal] at hl; simp only [ledDev] at hc
    rcases attachRhs it r 20 hl hc with ⟨r', h1, h2, h3⟩ | h
    · exact Or.inl ⟨.sliceL s r', by simpa [Led.Legal] using h1, by simp [Led.toks, h2], rfl, by simpa [ledDev] using h3⟩
    · exact Or.inr (by simpa [Led.follow] using h)
  | .wildIdxL r, hl, hc => by
    simp only [Led.Legal] at hl; simp only [ledDev] at hc
    rcases attachRhs it r 20 hl hc with ⟨r', h1, h2, h3⟩ | h
    · exact Or.inl ⟨.wildIdxL r', by simpa [Led.Legal] using h1, by simp [Led.toks, h2], rfl, by simpa [ledDev] using h3⟩
    · exact Or.inr (by simpa [Led.follow] using h)
  | .flattenL r, hl, hc => by
    simp only [Led.Legal] at hl; simp only [ledDev] at hc
    rcases attachRhs it r 9 hl hc with ⟨r', h1, h2, h3⟩ | h
    · exact Or.inl ⟨.flattenL r', by simpa [Led.Legal] using h1, by simp [Led.toks, h2], rfl, by simpa [ledDev] using h3⟩
    · exact Or.inr (by simpa [Led.follow] using h)
  | .filterL p r, hl, hc => by
    simp only [Led.Legal] at hl; simp only [ledDev, Cl_add] at hc
    rcases attachRhs it r 21 hl.2 hc.2 with ⟨r', h1, h2, h3⟩ | h
    · exact Or.inl ⟨.filterL p r', by simpa [Led.Legal] using ⟨hl.1, h1⟩, by simp [Led.toks, h2], rfl,
        by simpa [ledDev, Cl_add] using ⟨hc.1, h3⟩⟩
    · exact Or.inr (by simpa [Led.follow] using h)
  | .dot d, hl, hc => by
    simp only [Led.Legal] at hl; simp only [ledDev] at hc
    rcases attachDot it d 40 hl.1 hc with ⟨d', h1, h2, h3, h4⟩ | h
    · exact Or.inl ⟨.dot d', by simpa [Led.Legal, h3] using ⟨h1, hl.2⟩, by simp [Led.toks, h2], rfl, by simpa [ledDev] using h4⟩
    · exact Or.inr (by simpa [Led.follow] using h)
  | .or e, hl, hc => by
    simp only [Led.Legal] at hl; simp only [ledDev] at hc
    rcases attachExpr it e 2 hl hc with ⟨e', h1, h2, _, h3⟩ | h
    · exact Or.inl ⟨.or e', by simpa [Led.Legal] using h1, by simp [Led.toks, h2], rfl, by simpa [ledDev] using h3⟩
    · exact Or.inr (by simp only [Led.follow]; omega)
  | .and e, hl, hc => by
    simp only [Led.Legal] at hl; simp only [ledDev] at hc
    rcases attachExpr it e 3 hl hc with ⟨e', h1, h2, _, h3⟩ | h
    · exact Or.inl ⟨.and e', by simpa [Led.Legal] using h1, by simp [Led.toks, h2], rfl, by simpa [ledDev] using h3⟩
    · exact Or.inr (by simp only [Led.follow]; omega)
  | .pipe e, hl, hc => by
    simp only [Led.Legal] at hl; simp only [ledDev] at hc
    rcases attachExpr it e 1 hl hc with ⟨e', h1, h2, _, h3⟩ | h
    · exact Or.inl ⟨.pipe e', by simpa [Led.Legal] using h1, by simp [Led.toks, h2], rfl, by simpa [ledDev] using h3⟩
    · exact Or.inr (by simp only [Led.follow]; omega)
  | .cmp o e, hl, hc => by
    simp only [Led.Legal] at hl; simp only [ledDev] at hc
    rcases attachExpr it e 5 hl hc with ⟨e', h1, h2, _, h3⟩ | h
    · exact Or.inl ⟨.cmp o e', by simpa [Led.Legal] using h1, by simp [Led.toks, h2], rfl, by simpa [ledDev] using h3⟩
    · exact Or.inr (by simp only [Led.follow]; omega)
theorem attachRhs (it : Item) : ∀ (r : Rhs) (k : Nat), r.Legal k → Cl (rhsDev r) →
    (∃ r' : Rhs, r'.Legal k ∧ r'.toks = r.toks ++ it.led.toks ∧ Cl (rhsDev r'))
      ∨ it.led.lbp ≤ r.follow k
  | .none, k, _, _ => by
    rcases it.rhs with h | h
    · exact Or.inr (by simpa [Rhs.follow] using h)
    · obtain ⟨r', h1, h2, h3⟩ := h k
      exact Or.inl ⟨r', h1, by simp [Rhs.toks, h2], h3⟩
  | .dot d, k, hl, hc => by
    simp only [Rhs.Legal] at hl; simp only [rhsDev] at hc
    rcases attachDot it d k hl hc with ⟨d', h1, h2, _, h4⟩ | h
    · exact Or.inl ⟨.dot d', by simpa [Rhs.Legal] using h1, by simp [Rhs.toks, h2], by simpa [rhsDev] using h4⟩
    · exact Or.inr (by simpa [Rhs.follow] using h)
  | .bracket e, k, hl, hc => by
    simp only [Rhs.Legal] at hl; rw [rhsDev_bracket_clean_q] at hc
    rcases attachExpr it e k hl.1 hc.1 with ⟨e', h1, h2, h3, h4⟩ | h
    · refine Or.inl ⟨.bracket e', ?_, by simp [Rhs.toks, h2], ?_⟩
      · simp only [Rhs.Legal]; exact ⟨h1, by rw [Expr.headIsBracket_tag h3]; exact hl.2⟩
      · rw [rhsDev_bracket_clean_q]; exact ⟨h4, by rw [h3]; exact hc.2⟩
    · exact Or.inr (by simp only [Rhs.follow]; omega)
theorem attachDot (it : Item) : ∀ (d : DotRhs) (k : Nat), d.Legal k → Cl (dotDev d) →
    (∃ d' : DotRhs, d'.Legal k ∧ d'.toks = d.toks ++ it.led.toks ∧ d'.startsWithStar = d.startsWithStar
        ∧ Cl (dotDev d'))
      ∨ it.led.lbp ≤ d.follow k
  | .mlist _, _, _, _ => Or.inr (Led.lbp_le_INF _)
  | .expr e, k, hl, hc => by
    simp only [DotRhs.Legal] at hl; simp only [dotDev] at hc
    rcases attachExpr it e k hl.1 hc with ⟨e', h1, h2, h3, h4⟩ | h
    · refine Or.inl ⟨.expr e', ?_, by simp [DotRhs.toks, h2], ?_, by simpa [dotDev] using h4⟩
      · simp only [DotRhs.Legal]; exact ⟨h1, by rw [Expr.headIsDot_tag h3]; exact hl.2⟩
      · obtain ⟨hd, ls⟩ := e; obtain ⟨hd', ls'⟩ := e'
        simp only [DotRhs.startsWithStar]; exact Nud.isStar_tag h3
    · exact Or.inr (by simp only [DotRhs.follow]; omega)
theorem attachExpr (it : Item) : ∀ (e : Expr) (rbp : Nat), e.Legal rbp → Cl (exprDev false e) →
    (∃ e' : Expr, e'.Legal rbp ∧ e'.toks = e.toks ++ it.led.toks ∧ e'.headTag = e.headTag
        ∧ Cl (exprDev false e'))
      ∨ (it.led.lbp ≤ rbp ∧ it.led.lbp ≤ e.follow)
  | .mk h [], rbp, hl, hc => by
    simp only [Expr.Legal] at hl; rw [exprDev_false_clean_q] at hc
    rcases attachNud it h hl.1 hc.1 with ⟨h', h1, h2, h3, h4⟩ | hf
    · refine Or.inl ⟨.mk h' [], ?_, by simp [Expr.toks, ledsToks, h2], h3, ?_⟩
      · simp only [Expr.Legal, chain, callDevOk]; exact ⟨h1, trivial, trivial⟩
      · rw [exprDev_false_clean_q]; exact ⟨h4, hc.2.1, by rw [h3]; exact hc.2.2⟩
    · by_cases hp : rbp < it.led.lbp
      · refine Or.inl ⟨.mk h [it.led], ?_, by simp [Expr.toks, ledsToks], rfl, ?_⟩
        · simp only [Expr.Legal, chain, callDevOk]
          refine ⟨hl.1, ⟨hp, hf, it.legal, trivial⟩, fun hcd => ?_, by simp⟩
          rw [ledDev_clean_notCall _ it.clean] at hcd; cases hcd
        · rw [exprDev_false_clean_q]
          exact ⟨hc.1, by simpa [ledsDev, Cl_add, Cl_empty] using it.clean, hc.2.2⟩
      · exact Or.inr ⟨by omega, by simpa [Expr.follow, ledsFollow] using hf⟩
  | .mk h (l :: ls), rbp, hl, hc => by
    simp only [Expr.Legal] at hl; rw [exprDev_false_clean_q] at hc
    rcases attachLeds it (l :: ls) rbp h.follow hl.2.1 hc.2.1 (by simp) with ⟨ls', h1, h2, h3⟩ | hf
    · refine Or.inl ⟨.mk h ls', ?_, ?_, rfl, ?_⟩
      · simp only [Expr.Legal]; exact ⟨hl.1, h1, callDevOk_of_clean h ls' h3⟩
      · simp only [Expr.toks, h2, List.append_assoc]
      · rw [exprDev_false_clean_q]; exact ⟨hc.1, h3, hc.2.2⟩
    · exact Or.inr (by simpa [Expr.follow] using hf)
theorem attachLeds (it : Item) : ∀ (ls : List Led) (rbp f : Nat), chain rbp f ls → Cl (ledsDev ls) → ls ≠ [] →
    (∃ ls' : List Led, chain rbp f ls' ∧ ledsToks ls' = ledsToks ls ++ it.led.toks ∧ Cl (ledsDev ls'))
      ∨ (it.led.lbp ≤ rbp ∧ it.led.lbp ≤ ledsFollow f ls)
  | [], _, _, _, _, hne => absurd rfl hne
  | [l], rbp, f, hl, hc, _ => by
    simp only [chain] at hl; simp only [ledsDev, Cl_add] at hc
    rcases attachLed it l hl.2.2.1 hc.1 with ⟨l', h1, h2, h3, h4⟩ | hf
    · refine Or.inl ⟨[l'], ?_, by simp [ledsToks, h2], by simpa [ledsDev, Cl_add] using ⟨h4, hc.2⟩⟩
      simp only [chain, h3]; exact ⟨hl.1, hl.2.1, h1, trivial⟩
    · by_cases hp : rbp < it.led.lbp
      · refine Or.inl ⟨[l, it.led], ?_, by simp [ledsToks], ?_⟩
        · simp only [chain]; exact ⟨hl.1, hl.2.1, hl.2.2.1, hp, hf, it.legal, trivial⟩
        · simp only [ledsDev, Cl_add]; exact ⟨hc.1, it.clean, Cl_empty⟩
      · exact Or.inr ⟨by omega, by simpa [ledsFollow] using hf⟩
  | l :: l2 :: ls, rbp, f, hl, hc, _ => by
    rw [chain] at hl; rw [ledsDev, Cl_add] at hc
    rcases attachLeds it (l2 :: ls) rbp l.follow hl.2.2.2 hc.2 (by simp) with ⟨ls', h1, h2, h3⟩ | hf
    · refine Or.inl ⟨l :: ls', ?_, ?_, ?_⟩
      · rw [chain]; exact ⟨hl.1, hl.2.1, hl.2.2.1, h1⟩
      · simp only [ledsToks, h2, List.append_assoc]
      · rw [ledsDev, Cl_add]; exact ⟨hc.1, h3⟩
    · exact Or.inr (by rw [ledsFollow]; exact hf)
end

/-- top level: at ambient power 0 every application is taken -/
theorem attach0 (it : Item) (hp : 0 < it.led.lbp) (e : Expr) (hl : e.Legal 0) (hc : Cl (exprDev false e)) :
    ∃ e' : Expr, e'.Legal 0 ∧ e'.toks = e.toks ++ it.led.toks ∧ Cl (exprDev false e') := by
  rcases attachExpr it e 0 hl hc with ⟨e', h1, h2, _, h3⟩ | h
  · exact ⟨e', h1, h2, h3⟩
  · omega

end JmesVerif
