import JmesVerif.Lemmas.FloatExactShortest
import JmesVerif.Lemmas.JsonRoundTrip
/-!
# Driving the JSON number parser through the layouts of `floatText`

`floatBody ds ex` is the text serde_json prints for the digits `ds` with scientific exponent `ex`
(`ddd.ddd`, `ddd000.0`, `0.000ddd` or `d.ddde±xx`).  On the exact domain (`DomainCond`) the parser reads
it as a significand `S ≤ 2^53` and a decimal exponent `|E| ≤ 22` with `S·10^E` equal to the number the
digits spell, and `f64FromParts_exact` finishes.
-/
namespace JmesVerif
namespace FloatExact
open F64 JsonText JsonPrint JsonRT

/-- a list of decimal digit characters -/
def Digits (l : List Char) : Prop := ∀ c ∈ l, JsonText.isDigit c = true

theorem Digits.nil : Digits [] := by intro c h; simp at h
theorem Digits.cons {c : Char} {l : List Char} (hc : JsonText.isDigit c = true) (hl : Digits l) :
    Digits (c :: l) := by
  intro x hx
  rcases List.mem_cons.1 hx with rfl | h
  · exact hc
  · exact hl x h
theorem Digits.tail {c : Char} {l : List Char} (h : Digits (c :: l)) : Digits l :=
  fun x hx => h x (List.mem_cons_of_mem _ hx)
theorem Digits.head {c : Char} {l : List Char} (h : Digits (c :: l)) : JsonText.isDigit c = true :=
  h c (by simp)
theorem Digits.append {l m : List Char} (hl : Digits l) (hm : Digits m) : Digits (l ++ m) := by
  intro x hx
  rcases List.mem_append.1 hx with h | h
  · exact hl x h
  · exact hm x h
theorem Digits.zeros (n : Nat) : Digits (JsonPrint.zeros n) := by
  intro c hc
  simp [JsonPrint.zeros] at hc
  rw [hc.2]; decide
theorem Digits.take {l : List Char} (h : Digits l) (k : Nat) : Digits (l.take k) :=
  fun x hx => h x (List.mem_of_mem_take hx)
theorem Digits.drop {l : List Char} (h : Digits l) (k : Nat) : Digits (l.drop k) :=
  fun x hx => h x (List.mem_of_mem_drop hx)
theorem Digits.toDigits (n : Nat) : Digits (Nat.toDigits 10 n) :=
  fun _ hc => isDigit_of_mem_toDigits hc

/-- `rest` does not start with a digit -/
def NoDigit (rest : List Char) : Prop := ∀ c, rest.head? = some c → ¬ JsonText.isDigit c = true

theorem NoDigit.of_numEnd {rest : List Char} (h : NumEnd rest) : NoDigit rest := fun c hc => (h c hc).1
theorem NoDigit.cons {c : Char} (h : JsonText.isDigit c = false) (r : List Char) : NoDigit (c :: r) := by
  intro x hx; simp at hx; subst hx; simp [h]

theorem ofDigitChars_lt (l : List Char) : ∀ init, Digits l →
    Nat.ofDigitChars 10 l init < 10 ^ l.length * (init + 1) := by
  induction l with
  | nil => intro init _; simp
  | cons c l ih =>
    intro init h
    have h2 := (isDigit_iff c).1 h.head
    have := ih (10 * init + (c.toNat - '0'.toNat)) h.tail
    rw [Nat.ofDigitChars_cons, List.length_cons, Nat.pow_succ]
    have hle : 10 * init + (c.toNat - '0'.toNat) + 1 ≤ 10 * (init + 1) := by
      have : '0'.toNat = 48 := rfl
      omega
    calc _ < 10 ^ l.length * (10 * init + (c.toNat - '0'.toNat) + 1) := this
      _ ≤ 10 ^ l.length * (10 * (init + 1)) := Nat.mul_le_mul_left _ hle
      _ = _ := by rw [Nat.mul_assoc]

theorem ofDigitChars_lt_zero {l : List Char} (h : Digits l) : Nat.ofDigitChars 10 l 0 < 10 ^ l.length := by
  simpa using ofDigitChars_lt l 0 h

/-! ### the integer part -/

theorem parseInteger_digits (positive : Bool) (c : Char) (l rest : List Char)
    (h1 : 49 ≤ c.toNat) (h2 : c.toNat ≤ 57) (hl : Digits l) (hr : NoDigit rest)
    (hv : Nat.ofDigitChars 10 (c :: l) 0 ≤ U64_MAX) :
    parseInteger positive (c :: l ++ rest) = parseNumberTail positive (Nat.ofDigitChars 10 (c :: l) 0) rest := by
  have hval : Nat.ofDigitChars 10 (c :: l) 0 = Nat.ofDigitChars 10 l (digitVal c) := by
    rw [Nat.ofDigitChars_cons]; simp [digitVal]
  rw [hval] at hv ⊢
  have hloop := digits_loop l (digitVal c) rest hl hr hv
  rw [List.cons_append, parseInteger]
  · simp only [(one_le_iff c).2 ⟨h1, h2⟩, if_true, hloop]
    simp
  · intro h; rw [h] at h1; revert h1; decide

theorem parseInteger_zero (positive : Bool) (rest : List Char) (hr : NoDigit rest) :
    parseInteger positive ('0' :: rest) = parseNumberTail positive 0 rest := by
  cases rest with
  | nil => simp [parseInteger]
  | cons c cs =>
    have := hr c rfl
    simp [parseInteger, this]

/-! ### the fraction part -/

theorem decimal_loop (fr : List Char) : ∀ (sig : Nat) (ea : Int) (rest : List Char),
    Digits fr → NoDigit rest → Nat.ofDigitChars 10 fr sig ≤ U64_MAX →
    parseDecimal.digits (fr ++ rest) sig ea = (Nat.ofDigitChars 10 fr sig, ea - fr.length, false, rest) := by
  induction fr with
  | nil =>
    intro sig ea rest _ hr _
    cases rest with
    | nil => simp [parseDecimal.digits]
    | cons c cs =>
      have := hr c rfl
      simp [parseDecimal.digits, this]
  | cons d ds ih =>
    intro sig ea rest hd hr hle
    have hdd : JsonText.isDigit d = true := hd.head
    rw [Nat.ofDigitChars_cons] at hle ⊢
    have hv : 10 * sig + (d.toNat - '0'.toNat) = sig * 10 + digitVal d := by
      simp only [digitVal]; omega
    rw [hv] at hle ⊢
    have h1 := le_ofDigitChars ds (sig * 10 + digitVal d)
    have h2 := (isDigit_iff d).1 hdd
    have hv2 : digitVal d = d.toNat - 48 := rfl
    simp only [List.cons_append, parseDecimal.digits, hdd, if_true]
    rw [if_neg]
    · rw [ih _ _ rest hd.tail hr hle]
      simp only [List.length_cons, Prod.mk.injEq, true_and, and_true]
      omega
    · unfold U64_MAX at *
      omega

/-- `rest` starts neither with a digit nor with an exponent marker -/
def NoExp (rest : List Char) : Prop := ∀ c, rest.head? = some c → c ≠ 'e' ∧ c ≠ 'E'

theorem NoExp.of_numEnd {rest : List Char} (h : NumEnd rest) : NoExp rest :=
  fun c hc => ⟨(h c hc).2.2.1, (h c hc).2.2.2.1⟩

/-- fraction digits followed by the end of the number -/
theorem parseDecimal_end (positive : Bool) (sig : Nat) (eb : Int) (dot : Char) (fr rest : List Char)
    (hfr : Digits fr) (hne : fr ≠ []) (hr : NoDigit rest) (hx : NoExp rest)
    (hv : Nat.ofDigitChars 10 fr sig ≤ U64_MAX) :
    parseDecimal positive sig eb (dot :: (fr ++ rest)) =
      (f64FromParts positive (Nat.ofDigitChars 10 fr sig) (eb + (0 - (fr.length : Int)))).map (·, rest) := by
  have hlen : 0 < fr.length := List.length_pos_iff.2 hne
  rw [parseDecimal]
  simp only [decimal_loop fr sig 0 rest hfr hr hv]
  rw [if_neg (by simp), if_neg (by omega)]
  split
  · exact absurd rfl (hx _ rfl).1
  · exact absurd rfl (hx _ rfl).2
  · rfl

/-- fraction digits followed by an exponent -/
theorem parseDecimal_exp (positive : Bool) (sig : Nat) (eb : Int) (dot : Char) (fr rest : List Char)
    (hfr : Digits fr) (hne : fr ≠ [])
    (hv : Nat.ofDigitChars 10 fr sig ≤ U64_MAX) :
    parseDecimal positive sig eb (dot :: (fr ++ 'e' :: rest)) =
      parseExponent positive (Nat.ofDigitChars 10 fr sig) (eb + (0 - (fr.length : Int))) ('e' :: rest) := by
  have hlen : 0 < fr.length := List.length_pos_iff.2 hne
  rw [parseDecimal]
  simp only [decimal_loop fr sig 0 ('e' :: rest) hfr (NoDigit.cons (by decide) _) hv]
  rw [if_neg (by simp), if_neg (by omega)]

/-! ### the exponent -/

theorem takeDigits_append (l rest : List Char) (hl : Digits l) (hr : NoDigit rest) :
    takeDigits (l ++ rest) = (l, rest) := by
  induction l with
  | nil =>
    cases rest with
    | nil => simp [takeDigits]
    | cons c cs =>
      have := hr c rfl
      simp [takeDigits, this]
  | cons d ds ih =>
    simp only [List.cons_append, takeDigits, hl.head, if_true, ih hl.tail]

theorem acc_spec (ds : List Char) : ∀ exp, Digits ds → Nat.ofDigitChars 10 ds exp < 214748364 →
    parseExponent.acc ds exp = some (Nat.ofDigitChars 10 ds exp) := by
  induction ds with
  | nil => intro exp _ _; simp [parseExponent.acc]
  | cons d ds ih =>
    intro exp hd hlt
    rw [Nat.ofDigitChars_cons] at hlt ⊢
    have hv : 10 * exp + (d.toNat - '0'.toNat) = exp * 10 + digitVal d := by
      simp only [digitVal]; omega
    rw [hv] at hlt ⊢
    have h1 := le_ofDigitChars ds (exp * 10 + digitVal d)
    rw [parseExponent.acc]
    rw [if_neg]
    · exact ih _ hd.tail hlt
    · unfold I32_MAXN
      omega

theorem satI32_small {x : Int} (h1 : -3000 ≤ x) (h2 : x ≤ 3000) : satI32 x = x := by
  unfold satI32
  rw [if_neg (by omega), if_neg (by omega)]

theorem toDigits_cons_val (n : Nat) : ∃ d0 ds, Nat.toDigits 10 n = d0 :: ds ∧ Digits (d0 :: ds) ∧
    Nat.ofDigitChars 10 ds (digitVal d0) = n := by
  obtain ⟨d0, ds, he, _⟩ := toDigits_head_isDigit n
  refine ⟨d0, ds, he, he ▸ Digits.toDigits n, ?_⟩
  have := @Nat.ofDigitChars_ten_toDigits n
  rw [he, Nat.ofDigitChars_cons] at this
  simpa [digitVal] using this

theorem parseExponent_plus (positive : Bool) (S : Nat) (start : Int) (n : Nat) (e : Char) (rest : List Char)
    (hn : n < 1000) (h1 : -1000 ≤ start) (h2 : start ≤ 1000) (hr : NoDigit rest) :
    parseExponent positive S start (e :: '+' :: (Nat.toDigits 10 n ++ rest)) =
      (f64FromParts positive S (start + n)).map (·, rest) := by
  obtain ⟨d0, ds, he, hd, hval⟩ := toDigits_cons_val n
  rw [parseExponent, takeDigits_append _ _ (Digits.toDigits n) hr, he]
  simp only [acc_spec ds (digitVal d0) hd.tail (by omega), hval, if_true]
  rw [satI32_small (by omega) (by omega)]
  cases f64FromParts positive S (start + n) <;> rfl

theorem parseExponent_minus (positive : Bool) (S : Nat) (start : Int) (n : Nat) (e : Char) (rest : List Char)
    (hn : n < 1000) (h1 : -1000 ≤ start) (h2 : start ≤ 1000) (hr : NoDigit rest) :
    parseExponent positive S start (e :: '-' :: (Nat.toDigits 10 n ++ rest)) =
      (f64FromParts positive S (start - n)).map (·, rest) := by
  obtain ⟨d0, ds, he, hd, hval⟩ := toDigits_cons_val n
  rw [parseExponent, takeDigits_append _ _ (Digits.toDigits n) hr, he]
  simp only [acc_spec ds (digitVal d0) hd.tail (by omega), hval]
  simp only [Bool.false_eq_true, if_false]
  rw [satI32_small (by omega) (by omega)]
  cases f64FromParts positive S (start - n) <;> rfl

/-! ### the layouts -/

/-- serde_json's layout of the digits `ds` with scientific exponent `ex` (the body of `floatText`) -/
def floatBody (ds : List Char) (ex : Int) : List Char :=
  if -5 ≤ ex ∧ ex < 16 then
    if ex ≥ 0 then
      let k := ex.toNat + 1
      if ds.length ≤ k then ds ++ zeros (k - ds.length) ++ ['.', '0']
      else ds.take k ++ ['.'] ++ ds.drop k
    else ['0', '.'] ++ zeros ((-ex).toNat - 1) ++ ds
  else
    let mant := match ds with
      | [d] => [d]
      | d :: rest => d :: '.' :: rest
      | [] => ['0']
    mant ++ ['e'] ++ (if ex < 0 then ['-'] else ['+']) ++ natDigits ex.natAbs

theorem floatText_fin (s : Bool) (m : Nat) (e : Int) (hm : m ≠ 0) :
    (floatText (.fin s m e)).toList =
      (if s then ['-'] else []) ++
        floatBody (shortest (.fin false m e)).1 (shortest (.fin false m e)).2 := by
  cases m with
  | zero => exact absurd rfl hm
  | succ k =>
    simp only [floatText, String.toList_ofList]
    rfl

/-- the number the digits spell: `d₁.d₂d₃… × 10^ex = D · 10^(ex − (n − 1))` -/
def spelled (ds : List Char) (ex : Int) : Rat :=
  (Nat.ofDigitChars 10 ds 0 : Nat) * JsonPrint.pow10 (ex - ((ds.length : Int) - 1))

/-- **the exact domain**, on the printer's output (digits `ds`, scientific exponent `ex`):
the search succeeded, at most 15 significant digits, the decimal exponent of the integer significand
within `±22`, and — in the layout `ddd000.0`, where the parser also accumulates the appended `0` — the
accumulated significand `ddd0000 = D · 10^(ex + 2 − |ds|)` is itself a double (converting it to `f64`
is exact; true in particular whenever it is at most `2^53`, see `DomainCond.of_le`).  Without the last
clause the statement is false: `7205759403792820.0` (15 digits, exponent 1) is read back as
`7205759403792819.0`, because `72057594037928200` is not a double. -/
def DomainCond (ds : List Char) (ex : Int) : Prop :=
  ds ≠ ['0'] ∧ ds.length ≤ 15 ∧
  -22 ≤ ex - ((ds.length : Int) - 1) ∧ ex - ((ds.length : Int) - 1) ≤ 22 ∧
  (0 ≤ ex ∧ ex < 16 ∧ (ds.length : Int) ≤ ex + 1 →
    (F64.ofNat (Nat.ofDigitChars 10 ds 0 * 10 ^ (ex.toNat + 2 - ds.length))).toRat =
      ((Nat.ofDigitChars 10 ds 0 * 10 ^ (ex.toNat + 2 - ds.length) : Nat) : Rat))

instance (ds : List Char) (ex : Int) : Decidable (DomainCond ds ex) := by
  unfold DomainCond; exact inferInstance

/-- the simpler sufficient form of the last clause: the accumulated significand is at most `2^53` -/
theorem DomainCond.of_le {ds : List Char} {ex : Int} (h0 : ds ≠ ['0']) (h1 : ds.length ≤ 15)
    (h2 : -22 ≤ ex - ((ds.length : Int) - 1)) (h3 : ex - ((ds.length : Int) - 1) ≤ 22)
    (h4 : 0 ≤ ex ∧ ex < 16 ∧ (ds.length : Int) ≤ ex + 1 →
      Nat.ofDigitChars 10 ds 0 * 10 ^ (ex.toNat + 2 - ds.length) ≤ 2 ^ 53) : DomainCond ds ex :=
  ⟨h0, h1, h2, h3, fun h => (ofNat_exact _ (h4 h)).2⟩

theorem finish' (positive : Bool) (S : Nat) (E : Int) (hS : (F64.ofNat S).toRat = (S : Rat))
    (hb : S ≤ 2 ^ 64) (hE : E.natAbs ≤ 22)
    {D j : Nat} {t : Int} (hSD : S = D * 10 ^ j) (hj : (j : Int) + E = t) (rest : List Char) :
    (f64FromParts positive S E).map (·, rest) =
      some (if positive then ofRat ((D : Rat) * JsonPrint.pow10 t)
            else (ofRat ((D : Rat) * JsonPrint.pow10 t)).neg, rest) := by
  have hV : (S : Rat) * JsonPrint.pow10 E = (D : Rat) * JsonPrint.pow10 t := by
    rw [hSD, Rat.natCast_mul, ← p10_natCast, Rat.mul_assoc, ← p10_add, hj]
  rw [f64FromParts_exact_of_repr' positive S E hS hb hE, hV]
  rfl

theorem finish (positive : Bool) (S : Nat) (E : Int) (hS : S ≤ 2 ^ 53) (hE : E.natAbs ≤ 22)
    {D j : Nat} {t : Int} (hSD : S = D * 10 ^ j) (hj : (j : Int) + E = t) (rest : List Char) :
    (f64FromParts positive S E).map (·, rest) =
      some (if positive then ofRat ((D : Rat) * JsonPrint.pow10 t)
            else (ofRat ((D : Rat) * JsonPrint.pow10 t)).neg, rest) :=
  finish' positive S E (ofNat_exact S hS).2
    (Nat.le_trans hS (Nat.pow_le_pow_right (by decide) (by decide))) hE hSD hj rest

theorem parseNumberTail_dot (positive : Bool) (n : Nat) (r : List Char) :
    parseNumberTail positive n ('.' :: r) =
      (parseDecimal positive n 0 ('.' :: r)).map (fun (f, r) => (.f f, r)) := rfl

theorem parseNumberTail_e (positive : Bool) (n : Nat) (r : List Char) :
    parseNumberTail positive n ('e' :: r) =
      (parseExponent positive n 0 ('e' :: r)).map (fun (f, r) => (.f f, r)) := rfl

theorem lt_pow53 {D n : Nat} (h : D < 10 ^ n) (hn : n ≤ 15) : D ≤ 2 ^ 53 ∧ D ≤ U64_MAX := by
  have : 10 ^ n ≤ 10 ^ 15 := Nat.pow_le_pow_right (by decide) hn
  have h2 : 10 ^ 15 ≤ 2 ^ 53 := by decide
  unfold U64_MAX
  omega

/-- layout `ddd000.0` -/
theorem layout_int (positive : Bool) (c : Char) (l : List Char) (ex : Int) (rest : List Char)
    (h1 : 49 ≤ c.toNat) (h2 : c.toNat ≤ 57) (hl : Digits l) (hdom : DomainCond (c :: l) ex)
    (hex0 : 0 ≤ ex) (hex1 : ex < 16) (hlen : (c :: l).length ≤ ex.toNat + 1) (hr : NumEnd rest) :
    parseInteger positive (floatBody (c :: l) ex ++ rest) =
      some (.f (if positive then ofRat (spelled (c :: l) ex) else (ofRat (spelled (c :: l) ex)).neg), rest) := by
  obtain ⟨_, hn15, hE1, hE2, hS⟩ := hdom
  have hS := hS ⟨hex0, hex1, by omega⟩
  have hds : Digits (c :: l) := Digits.cons ((isDigit_iff c).2 ⟨by omega, h2⟩) hl
  have hDlt := ofDigitChars_lt_zero hds
  generalize hz : ex.toNat + 1 - (c :: l).length = z at *
  have hbody : floatBody (c :: l) ex = (c :: l) ++ zeros z ++ ['.', '0'] := by
    unfold floatBody
    rw [if_pos ⟨by omega, hex1⟩, if_pos hex0]
    dsimp only
    rw [if_pos hlen, hz]
  have htext : floatBody (c :: l) ex ++ rest = c :: (l ++ zeros z) ++ '.' :: (['0'] ++ rest) := by
    rw [hbody]; simp
  have hval : Nat.ofDigitChars 10 (c :: (l ++ zeros z)) 0 = 10 ^ z * Nat.ofDigitChars 10 (c :: l) 0 := by
    rw [← List.cons_append, Nat.ofDigitChars_append, zeros, Nat.ofDigitChars_replicate_zero]
  have hpw : ex.toNat + 2 - (c :: l).length = z + 1 := by omega
  rw [hpw] at hS
  -- the integer part is below `10^16`
  have hVlt : 10 ^ z * Nat.ofDigitChars 10 (c :: l) 0 < 10 ^ 16 := by
    calc 10 ^ z * Nat.ofDigitChars 10 (c :: l) 0 < 10 ^ z * 10 ^ (c :: l).length :=
          Nat.mul_lt_mul_of_pos_left hDlt (Nat.pow_pos (by decide))
      _ = 10 ^ (z + (c :: l).length) := (Nat.pow_add ..).symm
      _ ≤ 10 ^ 16 := Nat.pow_le_pow_right (by decide) (by omega)
  generalize hD : Nat.ofDigitChars 10 (c :: l) 0 = D at *
  have hS' : Nat.ofDigitChars 10 ['0'] (10 ^ z * D) = D * 10 ^ (z + 1) := by
    simp only [Nat.ofDigitChars_cons, Nat.ofDigitChars_nil, Nat.pow_succ]
    have : '0'.toNat - '0'.toNat = 0 := rfl
    rw [this, Nat.add_zero, Nat.mul_comm 10, Nat.mul_comm (10 ^ z) D, Nat.mul_assoc]
  have hSlt : D * 10 ^ (z + 1) < 10 ^ 17 := by
    rw [Nat.pow_succ, ← Nat.mul_assoc, Nat.mul_comm D]; omega
  rw [htext, parseInteger_digits positive c (l ++ zeros z) _ h1 h2 (hl.append (Digits.zeros z))
    (NoDigit.cons (by decide) _) (by rw [hval]; unfold U64_MAX; omega), hval, parseNumberTail_dot,
    parseDecimal_end positive _ 0 '.' ['0'] rest (Digits.cons (by decide) Digits.nil) (by simp)
      (NoDigit.of_numEnd hr) (NoExp.of_numEnd hr) (by rw [hS']; unfold U64_MAX; omega)]
  rw [finish' positive _ _ (by rw [hS']; exact hS) (by rw [hS']; omega)
    (by simp) hS' (t := ex - (((c :: l).length : Int) - 1)) (by simp only [List.length_cons, List.length_nil] at *; omega) rest]
  simp only [spelled, hD, Option.map_some]

/-- layout `ddd.ddd` -/
theorem layout_frac (positive : Bool) (c : Char) (l : List Char) (ex : Int) (rest : List Char)
    (h1 : 49 ≤ c.toNat) (h2 : c.toNat ≤ 57) (hl : Digits l) (hdom : DomainCond (c :: l) ex)
    (hex0 : 0 ≤ ex) (hex1 : ex < 16) (hlen : ¬ (c :: l).length ≤ ex.toNat + 1) (hr : NumEnd rest) :
    parseInteger positive (floatBody (c :: l) ex ++ rest) =
      some (.f (if positive then ofRat (spelled (c :: l) ex) else (ofRat (spelled (c :: l) ex)).neg), rest) := by
  obtain ⟨_, hn15, hE1, hE2, _⟩ := hdom
  have hds : Digits (c :: l) := Digits.cons ((isDigit_iff c).2 ⟨by omega, h2⟩) hl
  have hbody : floatBody (c :: l) ex = (c :: l.take ex.toNat) ++ ['.'] ++ (c :: l).drop (ex.toNat + 1) := by
    unfold floatBody
    rw [if_pos ⟨by omega, hex1⟩, if_pos hex0]
    dsimp only
    rw [if_neg hlen]
    rfl
  generalize hfr : (c :: l).drop (ex.toNat + 1) = fr at *
  have htext : floatBody (c :: l) ex ++ rest = c :: (l.take ex.toNat) ++ '.' :: (fr ++ rest) := by
    rw [hbody]; simp
  have hfrlen : fr.length = (c :: l).length - (ex.toNat + 1) := by rw [← hfr, List.length_drop]
  have hfrne : fr ≠ [] := by
    apply List.ne_nil_of_length_pos; omega
  have hfrd : Digits fr := hfr ▸ hds.drop _
  have hsplit : Nat.ofDigitChars 10 fr (Nat.ofDigitChars 10 (c :: l.take ex.toNat) 0) =
      Nat.ofDigitChars 10 (c :: l) 0 := by
    rw [← Nat.ofDigitChars_append, ← hfr]
    congr 1
    exact List.take_append_drop (ex.toNat + 1) (c :: l)
  have hD := lt_pow53 (ofDigitChars_lt_zero hds) hn15
  have hI := lt_pow53 (ofDigitChars_lt_zero (Digits.cons hds.head (hl.take ex.toNat)))
    (n := (c :: l.take ex.toNat).length) (by
      have := List.length_take_le ex.toNat l
      simp only [List.length_cons] at *; omega)
  rw [htext, parseInteger_digits positive c (l.take ex.toNat) _ h1 h2 (hl.take _)
    (NoDigit.cons (by decide) _) hI.2, parseNumberTail_dot,
    parseDecimal_end positive _ 0 '.' fr rest hfrd hfrne
      (NoDigit.of_numEnd hr) (NoExp.of_numEnd hr) (by rw [hsplit]; exact hD.2), hsplit]
  rw [finish positive _ _ hD.1 (by omega) (D := Nat.ofDigitChars 10 (c :: l) 0) (j := 0) (by simp)
    (t := ex - (((c :: l).length : Int) - 1)) (by omega) rest]
  simp only [spelled, Option.map_some]

/-- layout `0.000ddd` -/
theorem layout_small (positive : Bool) (ds : List Char) (ex : Int) (rest : List Char)
    (hds : Digits ds) (hne : ds ≠ []) (hdom : DomainCond ds ex)
    (hex0 : -5 ≤ ex) (hex1 : ex < 0) (hr : NumEnd rest) :
    parseInteger positive (floatBody ds ex ++ rest) =
      some (.f (if positive then ofRat (spelled ds ex) else (ofRat (spelled ds ex)).neg), rest) := by
  obtain ⟨_, hn15, hE1, hE2, _⟩ := hdom
  have hbody : floatBody ds ex = ['0', '.'] ++ zeros ((-ex).toNat - 1) ++ ds := by
    unfold floatBody
    rw [if_pos ⟨hex0, by omega⟩, if_neg (by omega)]
  generalize hz : (-ex).toNat - 1 = z at *
  have htext : floatBody ds ex ++ rest = '0' :: '.' :: ((zeros z ++ ds) ++ rest) := by
    rw [hbody]; simp
  have hfrd : Digits (zeros z ++ ds) := (Digits.zeros z).append hds
  have hval : Nat.ofDigitChars 10 (zeros z ++ ds) 0 = Nat.ofDigitChars 10 ds 0 := by
    rw [Nat.ofDigitChars_append, zeros, Nat.ofDigitChars_replicate_zero, Nat.mul_zero]
  have hD := lt_pow53 (ofDigitChars_lt_zero hds) hn15
  have hlen : 0 < ds.length := List.length_pos_iff.2 hne
  rw [htext, parseInteger_zero positive _ (NoDigit.cons (by decide) _), parseNumberTail_dot,
    parseDecimal_end positive 0 0 '.' (zeros z ++ ds) rest hfrd (by simp [hne])
      (NoDigit.of_numEnd hr) (NoExp.of_numEnd hr) (by rw [hval]; exact hD.2), hval]
  have hl2 : ((zeros z ++ ds).length : Int) = z + ds.length := by simp [zeros]
  rw [finish positive _ _ hD.1 (by omega) (D := Nat.ofDigitChars 10 ds 0) (j := 0) (by simp)
    (t := ex - ((ds.length : Int) - 1)) (by omega) rest]
  simp only [spelled, Option.map_some]

theorem parseExponent_sci (positive : Bool) (S : Nat) (start ex : Int) (rest : List Char)
    (hex : ex.natAbs < 1000) (h1 : -1000 ≤ start) (h2 : start ≤ 1000) (hr : NoDigit rest) :
    parseExponent positive S start
        ('e' :: ((if ex < 0 then ['-'] else ['+']) ++ natDigits ex.natAbs ++ rest)) =
      (f64FromParts positive S (start + ex)).map (·, rest) := by
  rw [natDigits_eq]
  by_cases h : ex < 0
  · rw [if_pos h]
    have : start + ex = start - (ex.natAbs : Int) := by omega
    rw [this, ← parseExponent_minus positive S start ex.natAbs 'e' rest hex h1 h2 hr]
    simp
  · rw [if_neg h]
    have : start + ex = start + (ex.natAbs : Int) := by omega
    rw [this, ← parseExponent_plus positive S start ex.natAbs 'e' rest hex h1 h2 hr]
    simp

/-- layout `de±xx` (one digit) -/
theorem layout_sci1 (positive : Bool) (c : Char) (ex : Int) (rest : List Char)
    (h1 : 49 ≤ c.toNat) (h2 : c.toNat ≤ 57) (hdom : DomainCond [c] ex)
    (hex : ¬ (-5 ≤ ex ∧ ex < 16)) (hr : NumEnd rest) :
    parseInteger positive (floatBody [c] ex ++ rest) =
      some (.f (if positive then ofRat (spelled [c] ex) else (ofRat (spelled [c] ex)).neg), rest) := by
  obtain ⟨_, hn15, hE1, hE2, _⟩ := hdom
  have hds : Digits [c] := Digits.cons ((isDigit_iff c).2 ⟨by omega, h2⟩) Digits.nil
  have hbody : floatBody [c] ex = [c] ++ ['e'] ++ (if ex < 0 then ['-'] else ['+']) ++ natDigits ex.natAbs := by
    unfold floatBody
    rw [if_neg hex]
  have htext : floatBody [c] ex ++ rest =
      c :: [] ++ 'e' :: ((if ex < 0 then ['-'] else ['+']) ++ natDigits ex.natAbs ++ rest) := by
    rw [hbody]; simp
  have hD := lt_pow53 (ofDigitChars_lt_zero hds) hn15
  simp only [List.length_cons, List.length_nil] at hE1 hE2
  rw [htext, parseInteger_digits positive c [] _ h1 h2 Digits.nil (NoDigit.cons (by decide) _) hD.2,
    parseNumberTail_e, parseExponent_sci positive _ 0 ex rest (by omega) (by omega) (by omega)
      (NoDigit.of_numEnd hr)]
  rw [finish positive _ _ hD.1 (by omega) (D := Nat.ofDigitChars 10 [c] 0) (j := 0) (by simp)
    (t := ex - ((([c] : List Char).length : Int) - 1)) (by simp) rest]
  simp only [spelled, Option.map_some]

/-- layout `d.ddde±xx` -/
theorem layout_sci (positive : Bool) (c c2 : Char) (l : List Char) (ex : Int) (rest : List Char)
    (h1 : 49 ≤ c.toNat) (h2 : c.toNat ≤ 57) (hl : Digits (c2 :: l)) (hdom : DomainCond (c :: c2 :: l) ex)
    (hex : ¬ (-5 ≤ ex ∧ ex < 16)) (hr : NumEnd rest) :
    parseInteger positive (floatBody (c :: c2 :: l) ex ++ rest) =
      some (.f (if positive then ofRat (spelled (c :: c2 :: l) ex)
                else (ofRat (spelled (c :: c2 :: l) ex)).neg), rest) := by
  obtain ⟨_, hn15, hE1, hE2, _⟩ := hdom
  have hds : Digits (c :: c2 :: l) := Digits.cons ((isDigit_iff c).2 ⟨by omega, h2⟩) hl
  have hbody : floatBody (c :: c2 :: l) ex =
      (c :: '.' :: c2 :: l) ++ ['e'] ++ (if ex < 0 then ['-'] else ['+']) ++ natDigits ex.natAbs := by
    unfold floatBody
    rw [if_neg hex]
  have htext : floatBody (c :: c2 :: l) ex ++ rest =
      c :: [] ++ '.' :: ((c2 :: l) ++
        'e' :: ((if ex < 0 then ['-'] else ['+']) ++ natDigits ex.natAbs ++ rest)) := by
    rw [hbody]; simp
  have hD := lt_pow53 (ofDigitChars_lt_zero hds) hn15
  have hI := lt_pow53 (ofDigitChars_lt_zero (Digits.cons hds.head Digits.nil)) (n := 1) (by decide)
  have hsplit : Nat.ofDigitChars 10 (c2 :: l) (Nat.ofDigitChars 10 [c] 0) =
      Nat.ofDigitChars 10 (c :: c2 :: l) 0 := by
    rw [← Nat.ofDigitChars_append]; rfl
  simp only [List.length_cons] at hE1 hE2 hn15
  rw [htext, parseInteger_digits positive c [] _ h1 h2 Digits.nil (NoDigit.cons (by decide) _) hI.2,
    parseNumberTail_dot,
    parseDecimal_exp positive _ 0 '.' (c2 :: l) _ hl (by simp) (by rw [hsplit]; exact hD.2), hsplit,
    parseExponent_sci positive _ _ ex rest (by omega)
      (by simp only [List.length_cons]; omega) (by simp only [List.length_cons]; omega)
      (NoDigit.of_numEnd hr)]
  rw [finish positive _ _ hD.1 (by simp only [List.length_cons]; omega)
    (D := Nat.ofDigitChars 10 (c :: c2 :: l) 0) (j := 0) (by simp)
    (t := ex - (((c :: c2 :: l).length : Int) - 1)) (by simp only [List.length_cons]; omega) rest]
  simp only [spelled, Option.map_some]

/-- **every layout of `floatText` is read back exactly on the exact domain** -/
theorem parseInteger_floatBody (positive : Bool) (ds : List Char) (ex : Int) (rest : List Char)
    (hds : Digits ds) (hhead : ∃ c l, ds = c :: l ∧ 49 ≤ c.toNat ∧ c.toNat ≤ 57)
    (hdom : DomainCond ds ex) (hr : NumEnd rest) :
    parseInteger positive (floatBody ds ex ++ rest) =
      some (.f (if positive then ofRat (spelled ds ex) else (ofRat (spelled ds ex)).neg), rest) := by
  obtain ⟨c, l, rfl, h1, h2⟩ := hhead
  by_cases hex : -5 ≤ ex ∧ ex < 16
  · by_cases hex0 : 0 ≤ ex
    · by_cases hlen : (c :: l).length ≤ ex.toNat + 1
      · exact layout_int positive c l ex rest h1 h2 hds.tail hdom hex0 hex.2 hlen hr
      · exact layout_frac positive c l ex rest h1 h2 hds.tail hdom hex0 hex.2 hlen hr
    · exact layout_small positive (c :: l) ex rest hds (by simp) hdom hex.1 (by omega) hr
  · cases l with
    | nil => exact layout_sci1 positive c ex rest h1 h2 hdom hex hr
    | cons c2 l => exact layout_sci positive c c2 l ex rest h1 h2 hds.tail hdom hex hr

theorem parseValue_of_parseInteger_true {cs : List Char} {n : PNum} {r : List Char}
    (h : parseInteger true cs = some (n, r)) (fuel depth : Nat) :
    parseValue (fuel + 1) depth cs = some (numVal n, r) := by
  cases cs with
  | nil => simp [parseInteger] at h
  | cons c r' =>
    by_cases hd : JsonText.isDigit c = true
    · rw [parseValue_digit _ _ _ _ hd, h]; rfl
    · exfalso
      have hc0 : c ≠ '0' := by intro h0; subst h0; exact hd (by decide)
      rw [parseInteger] at h
      · have : ¬ (decide ('1' ≤ c) && decide (c ≤ '9')) = true := by
          rw [one_le_iff]; intro ⟨a, b⟩; exact hd ((isDigit_iff c).2 ⟨by omega, b⟩)
        simp [this] at h
      · exact hc0

theorem parseValue_of_parseInteger_false {cs : List Char} {n : PNum} {r : List Char}
    (h : parseInteger false cs = some (n, r)) (fuel depth : Nat) :
    parseValue (fuel + 1) depth ('-' :: cs) = some (numVal n, r) := by
  rw [parseValue, skipWs_minus]
  simp only [h, Option.map_some]

end FloatExact
end JmesVerif

#print axioms JmesVerif.FloatExact.parseInteger_floatBody
