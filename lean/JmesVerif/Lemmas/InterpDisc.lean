import JmesVerif.Lemmas.InterpMono
namespace JmesVerif

/-- the expref-typed parameter positions of the builtins that evaluate expression references -/
def exprefOK (name : String) (i : Nat) : Bool :=
  (name == "map" && i == 0) || ((name == "sort_by" || name == "max_by" || name == "min_by") && i == 1)

mutual
/-- expression references occur only as *direct* arguments of a call, and only in the expref-typed
parameter positions of `map` (1st), `sort_by`, `max_by`, `min_by` (2nd); never anywhere else.
Literals are JSON values. -/
def Ast.Disciplined : Ast → Bool
  | .comparison _ _ l r => l.Disciplined && r.Disciplined
  | .condition _ p t => p.Disciplined && t.Disciplined
  | .identity _ => true
  | .expref _ _ => false
  | .flatten _ a => a.Disciplined
  | .function _ name args => Ast.discArgs name 0 args
  | .field _ _ => true
  | .index _ _ => true
  | .literal _ v => v.isJson
  | .multiList _ es => Ast.discList es
  | .multiHash _ kvs => Ast.discKVs kvs
  | .not _ a => a.Disciplined
  | .projection _ l r => l.Disciplined && r.Disciplined
  | .objectValues _ a => a.Disciplined
  | .and _ l r => l.Disciplined && r.Disciplined
  | .or _ l r => l.Disciplined && r.Disciplined
  | .slice _ _ _ _ => true
  | .subexpr _ l r => l.Disciplined && r.Disciplined
/-- the arguments of a call of `name`, starting at position `i` -/
def Ast.discArgs (name : String) : Nat → List Ast → Bool
  | _, [] => true
  | i, .expref _ body :: rest => exprefOK name i && body.Disciplined && Ast.discArgs name (i + 1) rest
  | i, a :: rest => a.Disciplined && Ast.discArgs name (i + 1) rest
def Ast.discList : List Ast → Bool
  | [] => true
  | a :: rest => a.Disciplined && Ast.discList rest
def Ast.discKVs : List (String × Ast) → Bool
  | [] => true
  | (_, a) :: rest => a.Disciplined && Ast.discKVs rest
end

mutual
/-- node count -/
def Ast.size : Ast → Nat
  | .comparison _ _ l r => 1 + l.size + r.size
  | .condition _ p t => 1 + p.size + t.size
  | .identity _ => 1
  | .expref _ a => 1 + a.size
  | .flatten _ a => 1 + a.size
  | .function _ _ args => 1 + Ast.sizeList args
  | .field _ _ => 1
  | .index _ _ => 1
  | .literal _ _ => 1
  | .multiList _ es => 1 + Ast.sizeList es
  | .multiHash _ kvs => 1 + Ast.sizeKVs kvs
  | .not _ a => 1 + a.size
  | .projection _ l r => 1 + l.size + r.size
  | .objectValues _ a => 1 + a.size
  | .and _ l r => 1 + l.size + r.size
  | .or _ l r => 1 + l.size + r.size
  | .slice _ _ _ _ => 1
  | .subexpr _ l r => 1 + l.size + r.size
def Ast.sizeList : List Ast → Nat
  | [] => 0
  | a :: rest => a.size + Ast.sizeList rest
def Ast.sizeKVs : List (String × Ast) → Nat
  | [] => 0
  | (_, a) :: rest => a.size + Ast.sizeKVs rest
end


end JmesVerif
