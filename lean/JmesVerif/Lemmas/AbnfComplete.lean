import JmesVerif.Lemmas.AbnfCompleteAux
/-
Completeness of `Legal` w.r.t. the published ABNF (`Spec/Abnf.lean`): every sentence of the published
grammar has a tree that is `Legal 0` (hence is accepted by the parser, theorem T2), spells exactly that
sentence, and uses none of the deviations F3/F4/F5.

Route: induction on the ABNF derivation.  Closed forms are heads; `e . rhs` and `e bracket-specifier`
attach one application to the tree of `e` along its right spine (`attachExpr`, `Lemmas/AbnfAttach.lean`);
`l op r` attaches `op` applied to the tight prefix of `r`'s tree and then re-attaches the remaining
top-level applications of `r` one by one; `! e` takes the prefix of `e`'s applications that bind
tighter than 45 as its operand and leaves the rest outside.
-/
namespace JmesVerif
open GrammarCheck

theorem isStarOnly_eq {es : List Expr} (h : isStarOnly es = true) : es = [.mk (.star .none) []] := by
  unfold isStarOnly at h
  split at h
  · rfl
  · cases h

theorem comparator_tok {c : Tok} (h : Abnf.Comparator c) : ∃ o, c = cmpTok o := by
  cases h
  · exact ⟨.lt, rfl⟩
  · exact ⟨.le, rfl⟩
  · exact ⟨.eq, rfl⟩
  · exact ⟨.ge, rfl⟩
  · exact ⟨.gt, rfl⟩
  · exact ⟨.ne, rfl⟩

mutual
theorem expr_good : ∀ {ts : List Tok}, Abnf.Expression ts → Good ts
  | _, .sub h r => by
    obtain ⟨it, hp, ht⟩ := subrhs_item r
    have := good_attach it hp (expr_good h)
    rwa [ht] at this
  | _, .index h b => by
    obtain ⟨⟨it, hp, ht⟩, _⟩ := bracket_good b
    have := good_attach it hp (expr_good h)
    rwa [ht] at this
  | _, .bracket b => (bracket_good b).2
  | _, .comparator l c r => by
    obtain ⟨o, rfl⟩ := comparator_tok c
    exact good_bin (BinOp.cmp o) (expr_good l) (expr_good r)
  | _, .or l r => good_bin BinOp.or (expr_good l) (expr_good r)
  | _, .and l r => good_bin BinOp.and (expr_good l) (expr_good r)
  | _, .pipe l r => good_bin BinOp.pipe (expr_good l) (expr_good r)
  | _, .identifier i => by
    cases i with
    | unquoted s => exact good_head (.field s) trivial Cl_empty (by simp [Nud.tag])
    | quoted s => exact good_head (.qfield s) trivial Cl_empty (by simp [Nud.tag])
  | _, .not e => good_not (expr_good e)
  | _, .paren e => by
    obtain ⟨e', h1, rfl, h3⟩ := expr_good e
    exact good_head (.paren e') (by simpa [Nud.Legal] using h1) (by simpa [nudDev] using h3) (by simp [Nud.tag])
  | _, .star => good_head (.star .none) (by simp [Nud.Legal, Rhs.Legal]) (by simp [nudDev, rhsDev, Cl_empty]) (by simp [Nud.tag])
  | _, .multiSelectList m => by
    obtain ⟨es, h1, h2, h3, rfl⟩ := mlist_good m
    by_cases hs : isStarOnly es = true
    · have := good_head (.wildIdx .none) (by simp [Nud.Legal, Rhs.Legal]) (by simp [nudDev, rhsDev, Cl_empty]) (by simp [Nud.tag])
      rw [isStarOnly_eq hs]
      simpa [Nud.toks, Rhs.toks, argsToks, argsTail, Expr.toks, ledsToks] using this
    · have := good_head (.mlist es) (by simp only [Nud.Legal]; exact ⟨h1, by simpa using hs, h2⟩)
        (by simpa [nudDev] using h3) (by simp [Nud.tag])
      simpa [Nud.toks] using this
  | _, .multiSelectHash m => by
    obtain ⟨kvs, h1, h2, h3, rfl⟩ := mhash_good m
    have := good_head (.mhash kvs) (by simp only [Nud.Legal]; exact ⟨h1, h2⟩)
      (by simpa [nudDev] using h3) (by simp [Nud.tag])
    simpa [Nud.toks] using this
  | _, .literal v => good_head (.lit v) trivial Cl_empty (by simp [Nud.tag])
  | _, .function f => by
    obtain ⟨s, args, h1, h2, rfl⟩ := func_good f
    have := good_head (.call s args) (by simpa [Nud.Legal] using h1) (by simpa [nudDev] using h2) (by simp [Nud.tag])
    simpa [Nud.toks] using this
  | _, .currentNode => good_head .at trivial Cl_empty (by simp [Nud.tag])
theorem subrhs_item : ∀ {ts : List Tok}, Abnf.SubRhs ts →
    ∃ it : Item, 0 < it.led.lbp ∧ it.led.toks = .dot :: ts
  | _, .identifier i => by
    cases i with
    | unquoted s =>
      exact ⟨Item.dotHead (.field s) trivial rfl rfl Cl_empty (by simp [Nud.tag]), by simp [Item.dotHead, Led.lbp],
        by simp [Item.dotHead, Led.toks, DotRhs.toks, Expr.toks, Nud.toks, ledsToks]⟩
    | quoted s =>
      exact ⟨Item.dotHead (.qfield s) trivial rfl rfl Cl_empty (by simp [Nud.tag]), by simp [Item.dotHead, Led.lbp],
        by simp [Item.dotHead, Led.toks, DotRhs.toks, Expr.toks, Nud.toks, ledsToks]⟩
  | _, .multiSelectList m => by
    obtain ⟨es, h1, h2, h3, rfl⟩ := mlist_good m
    exact ⟨Item.dotMlist es h1 h2 h3, by simp [Item.dotMlist, Led.lbp],
      by simp [Item.dotMlist, Led.toks, DotRhs.toks]⟩
  | _, .multiSelectHash m => by
    obtain ⟨kvs, h1, h2, h3, rfl⟩ := mhash_good m
    exact ⟨Item.dotHead (.mhash kvs) (by simp only [Nud.Legal]; exact ⟨h1, h2⟩) rfl rfl
        (by simpa [nudDev] using h3) (by simp [Nud.tag]), by simp [Item.dotHead, Led.lbp],
      by simp [Item.dotHead, Led.toks, DotRhs.toks, Expr.toks, Nud.toks, ledsToks]⟩
  | _, .function f => by
    obtain ⟨s, args, h1, h2, rfl⟩ := func_good f
    exact ⟨Item.dotHead (.call s args) (by simpa [Nud.Legal] using h1) rfl rfl
        (by simpa [nudDev] using h2) (by simp [Nud.tag]), by simp [Item.dotHead, Led.lbp],
      by simp [Item.dotHead, Led.toks, DotRhs.toks, Expr.toks, Nud.toks, ledsToks]⟩
  | _, .star => ⟨Item.dotStar, by simp [Item.dotStar, Led.lbp], by simp [Item.dotStar, Led.toks, Rhs.toks]⟩
theorem bracket_good : ∀ {ts : List Tok}, Abnf.BracketSpecifier ts →
    (∃ it : Item, 0 < it.led.lbp ∧ it.led.toks = ts) ∧ Good ts
  | _, .number n => by
    refine ⟨⟨Item.bracket (.index n) (.idx n) trivial Cl_empty trivial rfl Cl_empty (by simp [Nud.tag])
      (by simp [Nud.tag]) (by simp [Nud.toks, Led.toks]), by simp [Item.bracket, Led.lbp], by simp [Item.bracket, Led.toks]⟩, ?_⟩
    have := good_head (.idx n) trivial Cl_empty (by simp [Nud.tag])
    simpa [Nud.toks] using this
  | _, .star => by
    refine ⟨⟨Item.bracket (.wildIdxL .none) (.wildIdx .none) (by simp [Led.Legal, Rhs.Legal])
      (by simp [ledDev, rhsDev, Cl_empty]) (by simp [Nud.Legal, Rhs.Legal]) rfl (by simp [nudDev, rhsDev, Cl_empty])
      (by simp [Nud.tag]) (by simp [Nud.tag]) (by simp [Nud.toks, Led.toks]),
      by simp [Item.bracket, Led.lbp], by simp [Item.bracket, Led.toks, Rhs.toks]⟩, ?_⟩
    have := good_head (.wildIdx .none) (by simp [Nud.Legal, Rhs.Legal]) (by simp [nudDev, rhsDev, Cl_empty]) (by simp [Nud.tag])
    simpa [Nud.toks, Rhs.toks] using this
  | _, .slice s => by
    obtain ⟨hdr, rfl⟩ := slice_toks s
    refine ⟨⟨Item.bracket (.sliceL hdr .none) (.slice hdr .none) (by simp [Led.Legal, Rhs.Legal])
      (by simp [ledDev, rhsDev, Cl_empty]) (by simp [Nud.Legal, Rhs.Legal]) rfl (by simp [nudDev, rhsDev, Cl_empty])
      (by simp [Nud.tag]) (by simp [Nud.tag]) (by simp [Nud.toks, Led.toks]),
      by simp [Item.bracket, Led.lbp], by simp [Item.bracket, Led.toks, Rhs.toks]⟩, ?_⟩
    have := good_head (.slice hdr .none) (by simp [Nud.Legal, Rhs.Legal]) (by simp [nudDev, rhsDev, Cl_empty]) (by simp [Nud.tag])
    simpa [Nud.toks, Rhs.toks] using this
  | _, .flatten => by
    refine ⟨⟨Item.flatten, by simp [Item.flatten, Led.lbp], by simp [Item.flatten, Led.toks, Rhs.toks]⟩, ?_⟩
    have := good_head (.flatten .none) (by simp [Nud.Legal, Rhs.Legal]) (by simp [nudDev, rhsDev, Cl_empty]) (by simp [Nud.tag])
    simpa [Nud.toks, Rhs.toks] using this
  | _, .filter e => by
    obtain ⟨p, h1, rfl, h3⟩ := expr_good e
    refine ⟨⟨Item.bracket (.filterL p .none) (.filter p .none) (by simpa [Led.Legal, Rhs.Legal] using h1)
      (by simpa [ledDev, rhsDev, Cl_add, Cl_empty] using h3) (by simpa [Nud.Legal, Rhs.Legal] using h1) rfl
      (by simpa [nudDev, rhsDev, Cl_add, Cl_empty] using h3)
      (by simp [Nud.tag]) (by simp [Nud.tag]) (by simp [Nud.toks, Led.toks]),
      by simp [Item.bracket, Led.lbp], by simp [Item.bracket, Led.toks, Rhs.toks]⟩, ?_⟩
    have := good_head (.filter p .none) (by simpa [Nud.Legal, Rhs.Legal] using h1)
      (by simpa [nudDev, rhsDev, Cl_add, Cl_empty] using h3) (by simp [Nud.tag])
    simpa [Nud.toks, Rhs.toks] using this
theorem mlist_good : ∀ {ts : List Tok}, Abnf.MultiSelectList ts →
    ∃ es : List Expr, es ≠ [] ∧ argsLegal es ∧ Cl (argsDev false es) ∧ ts = .lbracket :: (argsToks es ++ [.rbracket])
  | _, .mk l => by
    obtain ⟨es, h1, h2, h3, rfl⟩ := exprlist_good l
    exact ⟨es, h1, h2, h3, rfl⟩
theorem exprlist_good : ∀ {ts : List Tok}, Abnf.ExprList ts →
    ∃ es : List Expr, es ≠ [] ∧ argsLegal es ∧ Cl (argsDev false es) ∧ argsToks es = ts
  | _, .one e => by
    obtain ⟨e', h1, rfl, h3⟩ := expr_good e
    exact ⟨[e'], by simp, by simpa [argsLegal] using h1, by simpa [argsDev, Cl_add, Cl_empty] using h3,
      by simp [argsToks, argsTail]⟩
  | _, .cons e l => by
    obtain ⟨e', h1, rfl, h3⟩ := expr_good e
    obtain ⟨es, g1, g2, g3, rfl⟩ := exprlist_good l
    exact ⟨e' :: es, by simp, by simpa [argsLegal] using ⟨h1, g2⟩, by simpa [argsDev, Cl_add] using ⟨h3, g3⟩,
      by simp [argsToks, argsTail_eq es g1]⟩
theorem mhash_good : ∀ {ts : List Tok}, Abnf.MultiSelectHash ts →
    ∃ kvs : List (Bool × String × Expr), kvs ≠ [] ∧ kvsLegal kvs ∧ Cl (kvsDev kvs)
      ∧ ts = .lbrace :: (kvsToks kvs ++ [.rbrace])
  | _, .mk l => by
    obtain ⟨kvs, h1, h2, h3, rfl⟩ := kvlist_good l
    exact ⟨kvs, h1, h2, h3, rfl⟩
theorem kvlist_good : ∀ {ts : List Tok}, Abnf.KeyvalList ts →
    ∃ kvs : List (Bool × String × Expr), kvs ≠ [] ∧ kvsLegal kvs ∧ Cl (kvsDev kvs) ∧ kvsToks kvs = ts
  | _, .one k e => by
    obtain ⟨q, s, rfl⟩ := ident_key k
    obtain ⟨e', h1, rfl, h3⟩ := expr_good e
    exact ⟨[(q, s, e')], by simp, by simpa [kvsLegal] using h1, by simpa [kvsDev, Cl_add, Cl_empty] using h3,
      by simp [kvsToks, kvsTail]⟩
  | _, .cons k e l => by
    obtain ⟨q, s, rfl⟩ := ident_key k
    obtain ⟨e', h1, rfl, h3⟩ := expr_good e
    obtain ⟨kvs, g1, g2, g3, rfl⟩ := kvlist_good l
    exact ⟨(q, s, e') :: kvs, by simp, by simpa [kvsLegal] using ⟨h1, g2⟩, by simpa [kvsDev, Cl_add] using ⟨h3, g3⟩,
      by simp [kvsToks, kvsTail_eq kvs g1]⟩
theorem func_good : ∀ {ts : List Tok}, Abnf.FunctionExpression ts →
    ∃ (s : String) (args : List Expr), argsLegal args ∧ Cl (argsDev true args)
      ∧ ts = .identifier s :: .lparen :: (argsToks args ++ [.rparen])
  | _, .noArgs name => ⟨name, [], by simp [argsLegal], by simp [argsDev, Cl_empty], by simp [argsToks]⟩
  | _, .args name l => by
    obtain ⟨es, _, h2, h3, rfl⟩ := arglist_good l
    exact ⟨name, es, h2, h3, rfl⟩
theorem arglist_good : ∀ {ts : List Tok}, Abnf.ArgList ts →
    ∃ es : List Expr, es ≠ [] ∧ argsLegal es ∧ Cl (argsDev true es) ∧ argsToks es = ts
  | _, .one a => by
    obtain ⟨e', h1, h3, rfl⟩ := funarg_good a
    exact ⟨[e'], by simp, by simpa [argsLegal] using h1, by simpa [argsDev, Cl_add, Cl_empty] using h3,
      by simp [argsToks, argsTail]⟩
  | _, .cons a l => by
    obtain ⟨e', h1, h3, rfl⟩ := funarg_good a
    obtain ⟨es, g1, g2, g3, rfl⟩ := arglist_good l
    exact ⟨e' :: es, by simp, by simpa [argsLegal] using ⟨h1, g2⟩, by simpa [argsDev, Cl_add] using ⟨h3, g3⟩,
      by simp [argsToks, argsTail_eq es g1]⟩
theorem funarg_good : ∀ {ts : List Tok}, Abnf.FunctionArg ts →
    ∃ e : Expr, e.Legal 0 ∧ Cl (exprDev true e) ∧ e.toks = ts
  | _, .expression e => by
    obtain ⟨e', h1, rfl, h3⟩ := expr_good e
    exact ⟨e', h1, exprDev_true_of_false e' h3, rfl⟩
  | _, .expressionType e => by
    obtain ⟨e', h1, rfl, h3⟩ := expr_good e
    refine ⟨.mk (.expref e') [], ?_, ?_, by simp [Expr.toks, Nud.toks, ledsToks]⟩
    · simp only [Expr.Legal, Nud.Legal, chain, callDevOk]; exact ⟨h1, trivial, trivial⟩
    · simpa [exprDev, nudDev, ledsDev, Cl_add, Cl_empty, Cl_f16] using h3
end

/-- **Completeness.**  Every sentence of the published ABNF has a tree that is legal at power 0 (so the
parser accepts it, T2), spells that sentence, and contains none of the deviations F3, F4, F5. -/
theorem abnf_complete (ts : List Tok) (h : Abnf.Expression ts) :
    ∃ e : Expr, e.Legal 0 ∧ e.toks = ts ∧ (GrammarCheck.exprDev false e).languageClean :=
  expr_good h

end JmesVerif

#print axioms JmesVerif.abnf_complete
