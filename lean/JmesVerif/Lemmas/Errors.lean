import JmesVerif.Model.Errors
namespace JmesVerif
open Errors Spec

theorem colOf_snoc_nl (pre : List Char) : colOf (pre ++ ['\n']) = 0 := by
  simp [colOf]

theorem colOf_snoc (pre : List Char) (c : Char) (h : c ≠ '\n') : colOf (pre ++ [c]) = colOf pre + 1 := by
  simp [colOf, List.takeWhile_cons, h]

theorem lineOf_snoc_nl (pre : List Char) : lineOf (pre ++ ['\n']) = lineOf pre + 1 := by
  simp [lineOf, List.filter_append]

theorem lineOf_snoc (pre : List Char) (c : Char) (h : c ≠ '\n') : lineOf (pre ++ [c]) = lineOf pre := by
  simp [lineOf, List.filter_append, h]

/-- loop invariant: having consumed `pre` (with the counters equal to its line/column), the loop
ends with the line/column of `pre ++ charsBefore rest` -/
theorem lineColLoop_spec (rest : List Char) : ∀ (pre : List Char) (pos offset : Nat),
    lineColLoop rest pos offset (lineOf pre) (colOf pre) =
      (lineOf (pre ++ charsBefore rest pos offset), colOf (pre ++ charsBefore rest pos offset)) := by
  induction rest with
  | nil => intro pre pos offset; simp [lineColLoop, charsBefore]
  | cons c cs ih =>
    intro pre pos offset
    simp only [lineColLoop, charsBefore]
    by_cases hp : pos < offset
    · simp only [hp, if_true]
      by_cases hc : c = '\n'
      · subst hc
        simp only [if_true]
        have := ih (pre ++ ['\n']) (pos + '\n'.utf8Size) offset
        rw [lineOf_snoc_nl, colOf_snoc_nl] at this
        rw [this]; simp
      · simp only [hc, if_false]
        have := ih (pre ++ [c]) (pos + c.utf8Size) offset
        rw [lineOf_snoc _ _ hc, colOf_snoc _ _ hc] at this
        rw [this]; simp
    · simp [hp]

end JmesVerif
