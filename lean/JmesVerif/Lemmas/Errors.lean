import JmesVerif.Model.Errors
namespace JmesVerif
open Errors Spec

theorem colOf_snoc_nl (pre : List Char) : colOf (pre ++ ['\n']) = 0 := by
  simp [colOf]

theorem colOf_snoc (pre : List Char) (c : Char) (h : c ≠ '\n') : colOf (pre ++ [c]) = colOf pre + 1 := by
  simp [colOf, List.takeWhile_cons, h]

theorem lineOf_snoc_nl (pre : List Char) : lineOf (pre ++ ['\n']) = lineOf pre + 1 := by
  simp [lineOf, List.filter_append]

theorem lineOf_snoc (pre : List Char) (c : Char) (h : c ≠ '\n') : lineOf (pre ++ [c]) = lineOf pre := by
  simp [lineOf, List.filter_append, h]

/-- loop invariant: having consumed `pre` (with the counters equal to its line/column), the loop
ends with the line/column of `pre ++ charsBefore rest` -/
theorem lineColLoop_spec (rest : List Char) : ∀ (pre : List Char) (pos offset : Nat),
    lineColLoop rest pos offset (lineOf pre) (colOf pre) =
      (lineOf (pre ++ charsBefore rest pos offset), colOf (pre ++ charsBefore rest pos offset)) := by
  induction rest with
  | nil => intro pre pos offset; simp [lineColLoop, charsBefore]
  | cons c cs ih =>
    intro pre pos offset
    simp only [lineColLoop, charsBefore]
    by_cases hp : pos < offset
    · simp only [hp, if_true]
      by_cases hc : c = '\n'
      · subst hc
        simp only [if_true]
        have := ih (pre ++ ['\n']) (pos + '\n'.utf8Size) offset
        rw [lineOf_snoc_nl, colOf_snoc_nl] at this
        rw [this]; simp
      · simp only [hc, if_false]
        have := ih (pre ++ [c]) (pos + c.utf8Size) offset
        rw [lineOf_snoc _ _ hc, colOf_snoc _ _ hc] at this
        rw [this]; simp
    · simp [hp]

end JmesVerif

namespace JmesVerif
open Errors Spec

theorem lineCol_spec (expr : List Char) (offset : Nat) :
    lineCol expr offset = (lineOf (charsBefore expr 0 offset), colOf (charsBefore expr 0 offset)) := by
  have := lineColLoop_spec expr [] 0 offset
  simpa [lineCol, lineOf, colOf] using this

theorem charsBefore_prefix (pre suf : List Char) : ∀ pos : Nat,
    charsBefore (pre ++ suf) pos (pos + Lexer.utf8Len pre) = pre := by
  induction pre with
  | nil =>
    intro pos
    cases suf <;> simp [charsBefore, Lexer.utf8Len]
  | cons c cs ih =>
    intro pos
    have hpos : 0 < c.utf8Size := Char.utf8Size_pos c
    simp only [List.cons_append, charsBefore, Lexer.utf8Len]
    have : pos < pos + (c.utf8Size + Lexer.utf8Len cs) := by omega
    simp only [this, if_true]
    have e : pos + (c.utf8Size + Lexer.utf8Len cs) = (pos + c.utf8Size) + Lexer.utf8Len cs := by omega
    rw [e, ih]

/-- insert `ins` after the `n`-th (0-based) newline of a text, if there is one -/
def insertAfterLine (ins : List Char) : Nat → List Char → Option (List Char)
  | _, [] => none
  | n, c :: cs =>
    if c = '\n' then
      (if n = 0 then some (c :: (ins ++ cs)) else (insertAfterLine ins (n - 1) cs).map (c :: ·))
    else (insertAfterLine ins n cs).map (c :: ·)

theorem locLoop_after (line column : Nat) : ∀ (cs : List Char) (cur : Nat), line < cur →
    locLoop line column cs cur true = (cs, true) := by
  intro cs
  induction cs with
  | nil => intro cur _; simp [locLoop]
  | cons c cs ih =>
    intro cur h
    simp only [locLoop]
    by_cases hc : c = '\n'
    · have h1 : ¬ (cur + 1 = line + 1) := by omega
      simp only [hc, if_true, h1, if_false, ih (cur + 1) (by omega)]
    · simp [hc, ih cur h]

theorem locLoop_spec (line column : Nat) : ∀ (cs : List Char) (cur : Nat), cur ≤ line →
    locLoop line column cs cur false =
      match insertAfterLine (caret column) (line - cur) cs with
      | some r => (r, true)
      | none => (cs, false) := by
  intro cs
  induction cs with
  | nil => intro cur _; simp [locLoop, insertAfterLine]
  | cons c cs ih =>
    intro cur h
    simp only [locLoop, insertAfterLine]
    by_cases hc : c = '\n'
    · simp only [hc, if_true]
      by_cases he : cur = line
      · subst he
        simp [locLoop_after cur column cs (cur + 1) (by omega)]
      · have h1 : ¬ (cur + 1 = line + 1) := by omega
        have h2 : ¬ (line - cur = 0) := by omega
        simp only [h1, h2, if_false]
        rw [ih (cur + 1) (by omega)]
        have : line - (cur + 1) = line - cur - 1 := by omega
        rw [this]
        cases insertAfterLine (caret column) (line - cur - 1) cs <;> simp
    · simp only [hc, if_false]
      rw [ih cur h]
      cases insertAfterLine (caret column) (line - cur) cs <;> simp

/-- **Rendered location**: the expression text with the caret line (`column` spaces, `^`) inserted
right after line `line`; if the text has no such line break, a newline and the caret line are appended. -/
theorem errorLocation_spec (expr : List Char) (line column : Nat) :
    errorLocation expr line column =
      (insertAfterLine (caret column) line expr).getD (expr ++ '\n' :: caret column) := by
  simp only [errorLocation, locLoop_spec line column expr 0 (Nat.zero_le _), Nat.sub_zero]
  cases insertAfterLine (caret column) line expr <;> simp

end JmesVerif
