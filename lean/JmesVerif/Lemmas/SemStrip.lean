import JmesVerif.Spec.Sem
import JmesVerif.Model.Interp
/-
Offsets do not matter for trees without function calls and expression references: evaluating `a`
and `a.strip` gives the same outcome, except that an invalid-slice error may carry a different
offset.
-/
namespace JmesVerif

/-- same outcome up to the offset recorded in an invalid-slice error -/
def SameRes {α : Type} (r1 r2 : ERes α) : Prop :=
  r1 = r2 ∨ ∃ o1 o2, r1 = .error (.runtime .invalidSlice o1) ∧ r2 = .error (.runtime .invalidSlice o2)

theorem SameRes.rfl' {α : Type} (r : ERes α) : SameRes r r := Or.inl rfl

mutual
/-- no function call and no expression reference node -/
def Ast.plain : Ast → Bool
  | .function _ _ _ => false
  | .expref _ _ => false
  | .comparison _ _ l r => l.plain && r.plain
  | .condition _ p t => p.plain && t.plain
  | .flatten _ a => a.plain
  | .multiList _ es => plainList es
  | .multiHash _ kvs => plainKVs kvs
  | .not _ a => a.plain
  | .projection _ l r => l.plain && r.plain
  | .objectValues _ a => a.plain
  | .and _ l r => l.plain && r.plain
  | .or _ l r => l.plain && r.plain
  | .subexpr _ l r => l.plain && r.plain
  | _ => true
def plainList : List Ast → Bool
  | [] => true
  | a :: as => a.plain && plainList as
def plainKVs : List (String × Ast) → Bool
  | [] => true
  | (_, a) :: r => a.plain && plainKVs r
end

def StripInv (rt : Registry) (fuel : Nat) : Prop :=
  (∀ a d off, a.strip.plain = true → SameRes (interp rt fuel d a off) (interp rt fuel d a.strip off)) ∧
  (∀ xs a off, a.strip.plain = true →
      SameRes (projectEach rt fuel xs a off) (projectEach rt fuel xs a.strip off)) ∧
  (∀ d es off, plainList (stripList es) = true →
      SameRes (interpAll rt fuel d es off) (interpAll rt fuel d (stripList es) off)) ∧
  (∀ d kvs acc off, plainKVs (stripKVs kvs) = true →
      SameRes (interpKVs rt fuel d kvs acc off) (interpKVs rt fuel d (stripKVs kvs) acc off))

/-- finish with an induction hypothesis in tail position -/
local macro "sameclose " t:term : tactic =>
  `(tactic| (obtain h | ⟨o1, o2, h1, h2⟩ := $t; (rw [h]; exact Or.inl rfl); (rw [h1, h2]; exact Or.inr ⟨_, _, rfl, rfl⟩)))

/-- use an induction hypothesis for the first evaluation, leaving the equal-results case -/
local macro "samefirst " t:term : tactic =>
  `(tactic| (obtain h | ⟨o1, o2, h1, h2⟩ := $t; rotate_left; (rw [h1, h2]; exact Or.inr ⟨_, _, rfl, rfl⟩); rw [h]))

theorem strip_same (rt : Registry) : ∀ fuel, StripInv rt fuel := by
  intro fuel
  induction fuel with
  | zero =>
    refine ⟨?_, ?_, ?_, ?_⟩ <;> intros <;> simp only [interp, projectEach, interpAll, interpKVs] <;>
      exact Or.inl rfl
  | succ fuel ih =>
    obtain ⟨ih1, ih2, ih3, ih4⟩ := ih
    refine ⟨?_, ?_, ?_, ?_⟩
    · intro a d off hp
      cases a with
      | comparison o c l r =>
        simp only [Ast.strip, Ast.plain, Bool.and_eq_true] at hp
        simp only [interp, Ast.strip]
        samefirst (ih1 l d off hp.1)
        generalize interp rt fuel d l.strip off = res
        rcases res with e | ⟨v, off'⟩
        · exact Or.inl rfl
        · simp only []
          sameclose (ih1 r d off' hp.2)
      | condition o p t =>
        simp only [Ast.strip, Ast.plain, Bool.and_eq_true] at hp
        simp only [interp, Ast.strip]
        samefirst (ih1 p d off hp.1)
        generalize interp rt fuel d p.strip off = res
        rcases res with e | ⟨v, off'⟩
        · exact Or.inl rfl
        · simp only []
          split
          · sameclose (ih1 t d off' hp.2)
          · exact Or.inl rfl
      | identity o => simp only [interp, Ast.strip]; exact Or.inl rfl
      | expref o a => simp [Ast.strip, Ast.plain] at hp
      | flatten o a =>
        simp only [Ast.strip, Ast.plain] at hp
        simp only [interp, Ast.strip]
        samefirst (ih1 a d off hp)
        exact Or.inl rfl
      | function o n args => simp [Ast.strip, Ast.plain] at hp
      | field o n => simp only [interp, Ast.strip]; exact Or.inl rfl
      | index o i => cases d <;> simp only [interp, Ast.strip] <;> exact Or.inl rfl
      | literal o v => simp only [interp, Ast.strip]; exact Or.inl rfl
      | multiList o es =>
        simp only [Ast.strip, Ast.plain] at hp
        simp only [interp, Ast.strip]
        split
        · exact Or.inl rfl
        · sameclose (ih3 d es off hp)
      | multiHash o kvs =>
        simp only [Ast.strip, Ast.plain] at hp
        simp only [interp, Ast.strip]
        split
        · exact Or.inl rfl
        · sameclose (ih4 d kvs [] off hp)
      | not o a =>
        simp only [Ast.strip, Ast.plain] at hp
        simp only [interp, Ast.strip]
        sameclose (ih1 a d off hp)
      | projection o l r =>
        simp only [Ast.strip, Ast.plain, Bool.and_eq_true] at hp
        simp only [interp, Ast.strip]
        samefirst (ih1 l d off hp.1)
        generalize interp rt fuel d l.strip off = res
        rcases res with e | ⟨v, off'⟩
        · exact Or.inl rfl
        · cases v <;> simp only [] <;> first | exact Or.inl rfl | skip
          sameclose (ih2 _ r off' hp.2)
      | objectValues o a =>
        simp only [Ast.strip, Ast.plain] at hp
        simp only [interp, Ast.strip]
        samefirst (ih1 a d off hp)
        exact Or.inl rfl
      | and o l r =>
        simp only [Ast.strip, Ast.plain, Bool.and_eq_true] at hp
        simp only [interp, Ast.strip]
        samefirst (ih1 l d off hp.1)
        generalize interp rt fuel d l.strip off = res
        rcases res with e | ⟨v, off'⟩
        · exact Or.inl rfl
        · simp only []
          split
          · exact Or.inl rfl
          · sameclose (ih1 r d off' hp.2)
      | or o l r =>
        simp only [Ast.strip, Ast.plain, Bool.and_eq_true] at hp
        simp only [interp, Ast.strip]
        samefirst (ih1 l d off hp.1)
        generalize interp rt fuel d l.strip off = res
        rcases res with e | ⟨v, off'⟩
        · exact Or.inl rfl
        · simp only []
          split
          · exact Or.inl rfl
          · sameclose (ih1 r d off' hp.2)
      | slice o a b c =>
        cases d <;> simp only [interp, Ast.strip] <;> split <;>
          first | exact Or.inr ⟨_, _, rfl, rfl⟩ | exact Or.inl rfl
      | subexpr o l r =>
        simp only [Ast.strip, Ast.plain, Bool.and_eq_true] at hp
        simp only [interp, Ast.strip]
        samefirst (ih1 l d off hp.1)
        generalize interp rt fuel d l.strip off = res
        rcases res with e | ⟨v, off'⟩
        · exact Or.inl rfl
        · simp only []
          sameclose (ih1 r v off' hp.2)
    · intro xs a off hp
      cases xs with
      | nil => simp only [projectEach]; exact Or.inl rfl
      | cons x rest =>
        simp only [projectEach]
        samefirst (ih1 a x off hp)
        generalize interp rt fuel x a.strip off = res
        rcases res with e | ⟨v, off'⟩
        · exact Or.inl rfl
        · simp only []
          sameclose (ih2 rest a off' hp)
    · intro d es off hp
      cases es with
      | nil => simp only [interpAll, stripList]; exact Or.inl rfl
      | cons a rest =>
        simp only [stripList, plainList, Bool.and_eq_true] at hp
        simp only [interpAll, stripList]
        samefirst (ih1 a d off hp.1)
        generalize interp rt fuel d a.strip off = res
        rcases res with e | ⟨v, off'⟩
        · exact Or.inl rfl
        · simp only []
          sameclose (ih3 d rest off' hp.2)
    · intro d kvs acc off hp
      cases kvs with
      | nil => simp only [interpKVs, stripKVs]; exact Or.inl rfl
      | cons kv rest =>
        obtain ⟨k, a⟩ := kv
        simp only [stripKVs, plainKVs, Bool.and_eq_true] at hp
        simp only [interpKVs, stripKVs]
        samefirst (ih1 a d off hp.1)
        generalize interp rt fuel d a.strip off = res
        rcases res with e | ⟨v, off'⟩
        · exact Or.inl rfl
        · simp only []
          sameclose (ih4 d rest _ off' hp.2)

end JmesVerif
