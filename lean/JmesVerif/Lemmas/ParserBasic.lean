import JmesVerif.Spec.Grammar
import JmesVerif.Model.Parser
/-! Shared vocabulary for the parser theorems (T1 soundness, T2 completeness, fuel). -/
namespace JmesVerif

/-- the token string of a positioned token list -/
def tk (ts : List PT) : List Tok := ts.map Prod.snd

/-- first token of a position-free token string (`eof` when empty), cf. `Parser.peekT` -/
def peekL (ts : List Tok) : Tok := ts.headD .eof

@[simp] theorem tk_nil : tk [] = [] := rfl
@[simp] theorem tk_cons (p : Nat) (t : Tok) (r : List PT) : tk ((p, t) :: r) = t :: tk r := rfl

theorem peekT_eq_peekL (ts : List PT) : Parser.peekT ts = peekL (tk ts) := by
  cases ts with
  | nil => rfl
  | cons pt r => cases pt; rfl

end JmesVerif
