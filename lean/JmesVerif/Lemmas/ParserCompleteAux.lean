import JmesVerif.Lemmas.ParserCompleteBase
/-! Completeness (T2), part 2: the induction steps for every parser function except `nud`/`led`. -/
namespace JmesVerif
open Parser

/-- peel up to seven leading tokens off `h : tk ts = t₁ :: t₂ :: … :: rest` -/
macro "peel_tk" h:ident : tactic => `(tactic|
  (obtain ⟨_, _, rfl, h1⟩ := tk_cons_inv $h
   try (obtain ⟨_, _, rfl, h2⟩ := tk_cons_inv h1
        try (obtain ⟨_, _, rfl, h3⟩ := tk_cons_inv h2
             try (obtain ⟨_, _, rfl, h4⟩ := tk_cons_inv h3
                  try (obtain ⟨_, _, rfl, h5⟩ := tk_cons_inv h4
                       try (obtain ⟨_, _, rfl, h6⟩ := tk_cons_inv h5
                            try (obtain ⟨_, _, rfl, h7⟩ := tk_cons_inv h6))))))))

theorem idxLoop_slice (h : SliceHdr) (ts : List PT) (r0 : List Tok) (off : Nat)
    (hy : tk ts = h.toks ++ .rbracket :: r0) :
    ∃ ts' off', idxLoop 8 ts off none none none 0 = .ok (.slice h, ts', off') ∧ tk ts' = r0 := by
  obtain ⟨a, b, c⟩ := h
  rcases a with _ | a <;> rcases b with _ | b <;> rcases c with _ | _ | c <;>
    simp only [SliceHdr.toks, optNumToks, List.nil_append, List.cons_append, List.append_nil] at hy <;>
    peel_tk hy <;>
    simp [idxLoop, peekT, *]

theorem idxLoop_idx (n : Int) (ts : List PT) (r0 : List Tok) (off : Nat)
    (hy : tk ts = .number n :: .rbracket :: r0) :
    ∃ ts' off', idxLoop 8 ts off none none none 0 = .ok (.idx n, ts', off') ∧ tk ts' = r0 := by
  peel_tk hy
  simp [idxLoop, peekT, *]

theorem wildcardValues_complete (m : Nat) (hm : Comp m) (r : Rhs) (lhs : Ast) (ts : List PT) (r0 : List Tok) (off : Nat)
    (hsz : r.size ≤ m) (hl : r.Legal 20) (hy : tk ts = r.toks ++ r0) (h2 : (peekL r0).lbp ≤ r.follow 20) :
    ∃ a ts' off', Parser.wildcardValues (m+1) lhs ts off = .ok ((r, a), ts', off') ∧ tk ts' = r0 := by
  obtain ⟨a, ts', off', hp, htk⟩ := hm.rhs r 20 ts r0 off hsz hl (by omega) hy h2
  simp only [Parser.wildcardValues, hp]
  exact ⟨_, _, _, rfl, htk⟩

theorem parseFlatten_complete (m : Nat) (hm : Comp m) (r : Rhs) (lhs : Ast) (ts : List PT) (r0 : List Tok) (off : Nat)
    (hsz : r.size ≤ m) (hl : r.Legal 9) (hy : tk ts = r.toks ++ r0) (h2 : (peekL r0).lbp ≤ r.follow 9) :
    ∃ a ts' off', Parser.parseFlatten (m+1) lhs ts off = .ok ((r, a), ts', off') ∧ tk ts' = r0 := by
  obtain ⟨a, ts', off', hp, htk⟩ := hm.rhs r 9 ts r0 off hsz hl (by omega) hy h2
  simp only [Parser.parseFlatten, hp]
  exact ⟨_, _, _, rfl, htk⟩

theorem wildcardIndex_complete (m : Nat) (hm : Comp m) (r : Rhs) (lhs : Ast) (ts : List PT) (r0 : List Tok) (off : Nat)
    (hsz : r.size ≤ m) (hl : r.Legal 20) (hy : tk ts = .rbracket :: (r.toks ++ r0))
    (h2 : (peekL r0).lbp ≤ r.follow 20) :
    ∃ a ts' off', Parser.wildcardIndex (m+1) lhs ts off = .ok ((r, a), ts', off') ∧ tk ts' = r0 := by
  obtain ⟨p, ts₁, rfl, hy1⟩ := tk_cons_inv hy
  obtain ⟨a, ts', off', hp, htk⟩ := hm.rhs r 20 ts₁ r0 p hsz hl (by omega) hy1 h2
  simp only [Parser.wildcardIndex, hp]
  exact ⟨_, _, _, rfl, htk⟩

theorem parseFilter_complete (m : Nat) (hm : Comp m) (pe : Expr) (r : Rhs) (lhs : Ast) (ts : List PT) (r0 : List Tok)
    (off : Nat) (hsz1 : pe.size ≤ m) (hsz : r.size ≤ m) (hl1 : pe.Legal 0) (hl : r.Legal 21)
    (hy : tk ts = pe.toks ++ .rbracket :: (r.toks ++ r0)) (h2 : (peekL r0).lbp ≤ r.follow 21) :
    ∃ a ts' off', Parser.parseFilter (m+1) lhs ts off = .ok ((pe, r, a), ts', off') ∧ tk ts' = r0 := by
  obtain ⟨a1, ts1, off1, hp1, htk1, _⟩ := hm.expr pe 0 ts (.rbracket :: (r.toks ++ r0)) off hsz1 hl1 (by omega) hy
    (by simp [Tok.lbp]) (by simp [Tok.lbp])
  obtain ⟨p, ts₁, rfl, hy1⟩ := tk_cons_inv htk1
  obtain ⟨a, ts', off', hp, htk⟩ := hm.rhs r 21 ts₁ r0 p hsz hl (by omega) hy1 h2
  simp only [Parser.parseFilter, hp1, hp]
  exact ⟨_, _, _, rfl, htk⟩

theorem parseIndex_idx (m : Nat) (n : Int) (ts : List PT) (r0 : List Tok) (off : Nat)
    (hy : tk ts = .number n :: .rbracket :: r0) :
    ∃ a ts' off', Parser.parseIndex (m+1) ts off = .ok ((.inl n, a), ts', off') ∧ tk ts' = r0 := by
  obtain ⟨ts', off', hp, htk⟩ := idxLoop_idx n ts r0 off hy
  simp only [Parser.parseIndex, hp]
  exact ⟨_, _, _, rfl, htk⟩

theorem parseIndex_slice (m : Nat) (hm : Comp m) (h : SliceHdr) (r : Rhs) (ts : List PT) (r0 : List Tok) (off : Nat)
    (hsz : r.size ≤ m) (hl : r.Legal 20) (hy : tk ts = h.toks ++ .rbracket :: (r.toks ++ r0))
    (h2 : (peekL r0).lbp ≤ r.follow 20) :
    ∃ a ts' off', Parser.parseIndex (m+1) ts off = .ok ((.inr (h, r), a), ts', off') ∧ tk ts' = r0 := by
  obtain ⟨ts1, off1, hp1, htk1⟩ := idxLoop_slice h ts (r.toks ++ r0) off hy
  obtain ⟨a, ts', off', hp, htk⟩ := hm.rhs r 20 ts1 r0 off1 hsz hl (by omega) htk1 h2
  simp only [Parser.parseIndex, hp1, hp]
  exact ⟨_, _, _, rfl, htk⟩

theorem isClosing_closeTok (paren : Bool) : isClosing paren (closeTok_m paren) = true := by
  cases paren <;> simp [isClosing, closeTok_m]

theorem isClosing_nudStart (paren : Bool) (t : Tok) (h : t.nudStart = true) : isClosing paren t = false := by
  cases t <;> simp_all [isClosing, Tok.nudStart]

theorem multiList_complete (m : Nat) (hm : Comp m) (e : Expr) (es : List Expr) (ts : List PT) (r0 : List Tok)
    (off : Nat) (hsz : argsSize (e :: es) ≤ m) (hl : argsLegal (e :: es))
    (hy : tk ts = argsToks (e :: es) ++ .rbracket :: r0) :
    ∃ a ts' off', Parser.multiList (m+1) ts off = .ok ((e :: es, a), ts', off') ∧ tk ts' = r0 := by
  obtain ⟨as, ts', off', hp, htk⟩ := hm.args e es false ts r0 off [] [] hsz hl (by simpa [closeTok_m] using hy)
  simp only [List.nil_append] at hp
  simp only [Parser.multiList, hp, List.isEmpty_cons, Bool.false_eq_true, if_false]
  exact ⟨_, _, _, rfl, htk⟩

theorem comp_rhs (n : Nat) (ih : ∀ m, m < n → Comp m) (r : Rhs) (k : Nat) (ts : List PT) (r0 : List Tok) (off : Nat)
    (hsz : r.size ≤ n) (hl : r.Legal k) (hk : k < 60) (hy : tk ts = r.toks ++ r0)
    (h2 : (peekL r0).lbp ≤ r.follow k) :
    ∃ a ts' off', Parser.projRhs n k ts off = .ok ((r, a), ts', off') ∧ tk ts' = r0 := by
  cases n with
  | zero => cases r <;> simp [Rhs.size] at hsz
  | succ f =>
  cases r with
  | none =>
    simp only [Rhs.toks, List.nil_append] at hy
    simp only [Rhs.follow] at h2
    rw [← hy, ← peekT_eq_peekL] at h2
    rw [Parser.projRhs.eq_5]
    · rw [if_pos (by simp [projectionStop]; omega)]
      exact ⟨_, _, _, rfl, hy⟩
    · intro p r h; subst h; simp [peekT, Tok.lbp] at h2
    · intro p r h; subst h; simp [peekT, Tok.lbp] at h2
    · intro p r h; subst h; simp [peekT, Tok.lbp] at h2
  | dot d =>
    simp only [Rhs.toks, List.cons_append] at hy
    obtain ⟨p, ts₁, rfl, hy1⟩ := tk_cons_inv hy
    simp only [Rhs.size] at hsz
    simp only [Rhs.Legal] at hl
    simp only [Rhs.follow] at h2
    obtain ⟨a, ts', off', hd, htk⟩ := (ih f (by omega)).dot d k ts₁ r0 p (by omega) hl hk hy1 h2
    simp only [Parser.projRhs, hd]
    exact ⟨_, _, _, rfl, htk⟩
  | bracket e =>
    simp only [Rhs.toks] at hy
    simp only [Rhs.size] at hsz
    simp only [Rhs.Legal] at hl
    simp only [Rhs.follow] at h2
    obtain ⟨a, ts', off', he, htk, _⟩ := (ih f (by omega)).expr e k ts r0 off (by omega) hl.1 hk hy (by omega) (by omega)
    obtain ⟨h, ls⟩ := e
    have hb := hl.2
    simp only [Expr.headIsBracket] at hb
    simp only [Expr.toks, List.append_assoc] at hy
    cases h <;> simp [Nud.isBracketHead] at hb <;>
      simp only [Nud.toks, List.cons_append] at hy <;>
      obtain ⟨p, ts₁, rfl, hy1⟩ := tk_cons_inv hy <;>
      simp only [Parser.projRhs, he] <;>
      exact ⟨_, _, _, rfl, htk⟩

theorem comp_dot (n : Nat) (ih : ∀ m, m < n → Comp m) (d : DotRhs) (k : Nat) (ts : List PT) (r0 : List Tok) (off : Nat)
    (hsz : d.size ≤ n) (hl : d.Legal k) (hk : k < 60) (hy : tk ts = d.toks ++ r0)
    (h2 : (peekL r0).lbp ≤ d.follow k) :
    ∃ a ts' off', Parser.parseDot n k ts off = .ok ((d, a), ts', off') ∧ tk ts' = r0 := by
  cases n with
  | zero => cases d <;> simp [DotRhs.size] at hsz
  | succ f =>
  cases d with
  | mlist es =>
    simp only [DotRhs.toks, List.cons_append, List.append_assoc] at hy
    obtain ⟨p, ts₁, rfl, hy1⟩ := tk_cons_inv hy
    simp only [DotRhs.size] at hsz
    simp only [DotRhs.Legal] at hl
    cases f with
    | zero => omega
    | succ f' =>
    cases es with
    | nil => simp at hl
    | cons e es =>
    obtain ⟨as, ts', off', hp, htk⟩ := multiList_complete f' (ih f' (by omega)) e es ts₁ r0 p (by omega) hl.2
      (by simpa using hy1)
    simp only [Parser.parseDot, hp]
    exact ⟨_, _, _, rfl, htk⟩
  | expr e =>
    simp only [DotRhs.toks] at hy
    simp only [DotRhs.size] at hsz
    simp only [DotRhs.Legal] at hl
    simp only [DotRhs.follow] at h2
    obtain ⟨a, ts', off', he, htk, _⟩ := (ih f (by omega)).expr e k ts r0 off (by omega) hl.1 hk hy (by omega) (by omega)
    obtain ⟨h, ls⟩ := e
    have hb := hl.2
    simp only [Expr.headIsDot] at hb
    simp only [Expr.toks, List.append_assoc] at hy
    cases h <;> simp [Nud.isDotHead] at hb <;>
      simp only [Nud.toks, List.cons_append] at hy <;>
      obtain ⟨p, ts₁, rfl, hy1⟩ := tk_cons_inv hy <;>
      simp only [Parser.parseDot, he] <;>
      exact ⟨_, _, _, rfl, htk⟩

theorem closeTok_lbp (paren : Bool) : (closeTok_m paren).lbp = 0 := by cases paren <;> simp [closeTok_m, Tok.lbp]

theorem comp_args (n : Nat) (ih : ∀ m, m < n → Comp m) (e : Expr) (es : List Expr) (paren : Bool) (ts : List PT)
    (r0 : List Tok) (off : Nat) (acc : List Expr) (aacc : List Ast)
    (hsz : argsSize (e :: es) ≤ n) (hl : argsLegal (e :: es))
    (hy : tk ts = argsToks (e :: es) ++ closeTok_m paren :: r0) :
    ∃ as ts' off', Parser.parseList n paren ts off acc aacc = .ok ((acc ++ e :: es, as), ts', off') ∧
      tk ts' = r0 := by
  cases n with
  | zero => simp [argsSize] at hsz
  | succ f =>
  simp only [argsSize] at hsz
  simp only [argsLegal] at hl
  simp only [argsToks, List.append_assoc] at hy
  obtain ⟨a, ts', off', he, htk, _⟩ := (ih f (by omega)).expr e 0 ts (argsTail es ++ closeTok_m paren :: r0) off (by omega)
    hl.1 (by omega) hy
    (by cases es <;> cases paren <;> simp [argsTail, closeTok_m, Tok.lbp])
    (by cases es <;> cases paren <;> simp [argsTail, closeTok_m, Tok.lbp])
  obtain ⟨t, rest, ht1, ht2⟩ := e.toks_first
  rw [ht1, List.cons_append] at hy
  obtain ⟨p, ts₁, rfl, hy1⟩ := tk_cons_inv hy
  rw [Parser.parseList.eq_2, isClosing_nudStart _ _ ht2]
  simp only [Bool.false_eq_true, if_false, he]
  cases es with
  | nil =>
    simp only [argsTail, List.nil_append] at htk
    obtain ⟨p2, ts₂, rfl, hy2⟩ := tk_cons_inv htk
    cases paren <;> simp only [closeTok_m, isClosing, if_true, Bool.not_false, Bool.false_eq_true, if_false] <;>
      exact ⟨_, _, _, rfl, hy2⟩
  | cons e' es' =>
    simp only [argsTail, List.cons_append, List.append_assoc] at htk
    obtain ⟨p2, ts₂, rfl, hy2⟩ := tk_cons_inv htk
    obtain ⟨t', rest', ht1', ht2'⟩ := e'.toks_first
    have hpk : isClosing paren (peekT ts₂) = false := by
      rw [peekT_eq_peekL, hy2, ht1']; exact isClosing_nudStart _ _ ht2'
    simp only [hpk, Bool.false_eq_true, if_false]
    obtain ⟨as, ts3, off3, hp, htk3⟩ := (ih f (by omega)).args e' es' paren ts₂ r0 p2 (acc ++ [e]) (aacc ++ [a])
      (by simp only [argsSize] at hsz ⊢; omega) hl.2 (by simpa [argsToks] using hy2)
    simp only [List.append_assoc, List.cons_append, List.nil_append] at hp
    exact ⟨_, _, _, hp, htk3⟩

theorem comp_kvs (n : Nat) (ih : ∀ m, m < n → Comp m) (kv : Bool × String × Expr) (kvs : List (Bool × String × Expr))
    (ts : List PT) (r0 : List Tok) (off : Nat) (acc : List (Bool × String × Expr)) (aacc : List (String × Ast))
    (hsz : kvsSize (kv :: kvs) ≤ n) (hl : kvsLegal (kv :: kvs))
    (hy : tk ts = kvsToks (kv :: kvs) ++ .rbrace :: r0) :
    ∃ as ts' off', Parser.kvps n ts off acc aacc = .ok ((acc ++ kv :: kvs, as), ts', off') ∧
      tk ts' = r0 := by
  cases n with
  | zero => obtain ⟨q, s, e⟩ := kv; simp [kvsSize] at hsz
  | succ f =>
  obtain ⟨q, s, e⟩ := kv
  simp only [kvsSize] at hsz
  simp only [kvsLegal] at hl
  simp only [kvsToks, List.cons_append, List.append_assoc] at hy
  obtain ⟨p, ts₁, rfl, hy1⟩ := tk_cons_inv hy
  obtain ⟨p2, ts₂, rfl, hy2⟩ := tk_cons_inv hy1
  obtain ⟨a, ts', off', he, htk, _⟩ := (ih f (by omega)).expr e 0 ts₂ (kvsTail kvs ++ .rbrace :: r0) p2 (by omega)
    hl.1 (by omega) hy2
    (by cases kvs <;> simp [kvsTail, Tok.lbp])
    (by cases kvs <;> simp [kvsTail, Tok.lbp])
  cases kvs with
  | nil =>
    simp only [kvsTail, List.nil_append] at htk
    obtain ⟨p3, ts₃, rfl, hy3⟩ := tk_cons_inv htk
    cases q <;> simp only [keyTok, Parser.kvps, he, if_true, Bool.false_eq_true, if_false] <;>
      exact ⟨_, _, _, rfl, hy3⟩
  | cons kv' kvs' =>
    obtain ⟨q', s', e'⟩ := kv'
    simp only [kvsTail, List.cons_append, List.append_assoc] at htk
    obtain ⟨p3, ts₃, rfl, hy3⟩ := tk_cons_inv htk
    cases q
    all_goals
      obtain ⟨as, ts4, off4, hp, htk4⟩ := (ih f (by omega)).kvs (q', s', e') kvs' ts₃ r0 p3 (acc ++ [(_, s, e)]) (aacc ++ [(s, a)])
        (by simp only [kvsSize] at hsz ⊢; omega) hl.2 (by simpa [kvsToks] using hy3)
      simp only [List.append_assoc, List.cons_append, List.nil_append] at hp
      simp only [keyTok, Parser.kvps, he, if_true, Bool.false_eq_true, if_false]
      exact ⟨_, _, _, hp, htk4⟩

theorem noCallDev_cdOk {ls : List Led} (h : Nud) (left : Ast) (hn : noCallDev ls) : cdOk h left ls := by
  cases ls with
  | nil => trivial
  | cons l ls =>
    refine ⟨fun hc => ?_, fun l' hl' => hn l' (List.mem_cons_of_mem _ hl')⟩
    have := hn l (List.mem_cons_self ..)
    simp [this] at hc

/-- `parseList` on a possibly empty list -/
theorem parseList_any (m : Nat) (hm : Comp m) (es : List Expr) (paren : Bool) (ts : List PT) (r0 : List Tok)
    (off : Nat) (acc : List Expr) (aacc : List Ast)
    (hsz : argsSize es ≤ m) (hl : argsLegal es) (hy : tk ts = argsToks es ++ closeTok_m paren :: r0) :
    ∃ as ts' off', Parser.parseList m paren ts off acc aacc = .ok ((acc ++ es, as), ts', off') ∧
      tk ts' = r0 := by
  cases es with
  | cons e es => exact hm.args e es paren ts r0 off acc aacc hsz hl hy
  | nil =>
    cases m with
    | zero => simp [argsSize] at hsz
    | succ f =>
      simp only [argsToks, List.nil_append] at hy
      obtain ⟨p, ts₁, rfl, hy1⟩ := tk_cons_inv hy
      simp only [Parser.parseList, isClosing_closeTok, if_true]
      exact ⟨_, _, _, by rw [List.append_nil], hy1⟩

theorem comp_loop (n : Nat) (ih : ∀ m, m < n → Comp m) (ls : List Led) (rbp fo : Nat) (h : Nud) (acc : List Led) (left : Ast) (ts : List PT)
    (r0 : List Tok) (off : Nat)
    (hsz : ledsSize ls ≤ n) (hc : chain rbp fo ls) (hcd : cdOk h left ls) (hy : tk ts = ledsToks ls ++ r0)
    (h1 : (peekL r0).lbp ≤ rbp) (h2 : (peekL r0).lbp ≤ ledsFollow fo ls) :
    ∃ a ts' off', Parser.loop n rbp h acc left ts off = .ok ((.mk h (acc ++ ls), a), ts', off') ∧
      tk ts' = r0 ∧ (ls = [] → a = left) := by
  cases n with
  | zero => cases ls <;> simp [ledsSize] at hsz
  | succ f =>
  cases ls with
  | nil =>
    simp only [ledsToks, List.nil_append] at hy
    have : ¬ rbp < (peekT ts).lbp := by rw [peekT_eq_peekL, hy]; omega
    rw [Parser.loop.eq_def]
    simp only [this, if_false]
    exact ⟨left, ts, off, by rw [List.append_nil], hy, fun _ => rfl⟩
  | cons l ls =>
    simp only [chain] at hc
    simp only [ledsFollow] at h2
    simp only [ledsSize] at hsz
    simp only [ledsToks, List.append_assoc] at hy
    obtain ⟨hc1, hc2, hc3, hc4⟩ := hc
    have hlt : rbp < (peekT ts).lbp := by rw [peekT_eq_peekL, hy, peek_led]; exact hc1
    by_cases hcall : l.isCallDev = true
    · cases l <;> simp [Led.isCallDev] at hcall
      rename_i args
      obtain ⟨hp, o, nm, rfl⟩ := hcd.1 rfl
      simp only [Led.toks, List.cons_append, List.append_assoc, List.nil_append] at hy
      obtain ⟨p, ts₁, rfl, hy1⟩ := tk_cons_inv hy
      simp only [Led.size] at hsz
      simp only [Led.Legal] at hc3
      cases f with
      | zero => omega
      | succ f' =>
      obtain ⟨as, ts', off', hpl, htk⟩ := parseList_any (f'+1) (ih _ (by omega)) args true ts₁ (ledsToks ls ++ r0) p [] []
        (by omega) hc3 (by simpa [closeTok_m] using hy1)
      obtain ⟨a2, ts2, off2, hl2, htk2, _⟩ := (ih (f'+1) (by omega)).loop ls rbp (Led.callDev args).follow h
        (acc ++ [.callDev args]) (Ast.function p nm as) ts' r0 off' (by omega) hc4
        (noCallDev_cdOk _ _ hcd.2) htk h1 h2
      rw [Parser.loop.eq_2, if_pos hlt]
      simp only [hpl, List.nil_append]
      cases h <;> simp [Nud.isParen] at hp
      simp only [List.append_assoc, List.cons_append, List.nil_append] at hl2
      exact ⟨_, _, _, hl2, htk2, by simp⟩
    · have hcall : l.isCallDev = false := by simpa using hcall
      obtain ⟨t, rest, ht1, ht2, ht3, ht4⟩ := l.toks_first
      have hne : ∀ (p : Nat) (r : List PT), ts = (p, Tok.lparen) :: r → False := by
        intro p r hts
        rw [hts, ht1] at hy
        simp at hy
        have := ht3 hy.1.symm
        simp [hcall] at this
      obtain ⟨a, ts', off', hl, htk⟩ := (ih f (by omega)).led l left ts (ledsToks ls ++ r0) off (by omega) hc3 hcall hy
        (stop_leds _ _ _ _ hc4 h2)
      obtain ⟨a2, ts2, off2, hl2, htk2, _⟩ := (ih f (by omega)).loop ls rbp l.follow h (acc ++ [l]) a ts' r0 off' (by omega) hc4
        (noCallDev_cdOk _ _ hcd.2) htk h1 h2
      rw [Parser.loop.eq_4 _ _ _ _ _ _ _ hne, if_pos hlt, hl]
      simp only [List.append_assoc, List.cons_append, List.nil_append] at hl2
      exact ⟨_, _, _, hl2, htk2, by simp⟩

theorem isField_inv {h : Nud} {ls : List Led} (hf : (Expr.mk h ls).isField = true) : ls = [] := by
  cases ls with
  | nil => rfl
  | cons l ls => cases h <;> simp [Expr.isField] at hf

theorem cdOk_of_callDevOk {h : Nud} {ls : List Led} {left : Ast} (hc : callDevOk h ls)
    (hf : (Expr.mk h []).isField = true → IsFieldAst left) : cdOk h left ls := by
  cases ls with
  | nil => trivial
  | cons l ls =>
    simp only [callDevOk] at hc
    refine ⟨fun hcd => ?_, hc.2⟩
    have := hc.1 hcd
    cases h <;> simp at this
    exact ⟨rfl, hf (by simpa [Expr.isField] using this)⟩

theorem comp_expr (n : Nat) (ih : ∀ m, m < n → Comp m) (e : Expr) (rbp : Nat) (ts : List PT) (r0 : List Tok) (off : Nat)
    (hsz : e.size ≤ n) (hl : e.Legal rbp) (hr : rbp < 60) (hy : tk ts = e.toks ++ r0)
    (h1 : (peekL r0).lbp ≤ rbp) (h2 : (peekL r0).lbp ≤ e.follow) :
    ∃ a ts' off', Parser.expr n rbp ts off = .ok ((e, a), ts', off') ∧ tk ts' = r0 ∧
      (e.isField = true → IsFieldAst a) := by
  obtain ⟨h, ls⟩ := e
  simp only [Expr.size] at hsz
  simp only [Expr.Legal] at hl
  simp only [Expr.follow] at h2
  simp only [Expr.toks, List.append_assoc] at hy
  obtain ⟨hl1, hl2, hl3⟩ := hl
  cases n with
  | zero => omega
  | succ f =>
  by_cases hcall : h.isCall = true
  · cases h <;> simp [Nud.isCall] at hcall
    rename_i s args
    simp only [Nud.toks, List.cons_append, List.append_assoc, List.nil_append] at hy
    obtain ⟨p, ts₁, rfl, hy1⟩ := tk_cons_inv hy
    obtain ⟨p2, ts₂, rfl, hy2⟩ := tk_cons_inv hy1
    simp only [Nud.size] at hsz
    simp only [Nud.Legal] at hl1
    cases f with
    | zero => omega
    | succ f' =>
    cases f' with
    | zero => omega
    | succ f'' =>
    obtain ⟨as, ts', off', hpl, htk⟩ := parseList_any (f''+1) (ih _ (by omega)) args true ts₂ (ledsToks ls ++ r0) p2 [] []
      (by omega) hl1 (by simpa [closeTok_m] using hy2)
    obtain ⟨a2, ts2, off2, hl2, htk2, _⟩ := (ih (f''+1) (by omega)).loop ls rbp (Nud.call s args).follow (Nud.call s args)
      [] (Ast.function p2 s as) ts' r0 off' (by omega) hl2
      (cdOk_of_callDevOk hl3 (by simp [Expr.isField])) htk h1 h2
    simp only [Parser.expr, Parser.nud]
    rw [Parser.loop.eq_2, if_pos (by simpa [peekT, Tok.lbp] using hr)]
    simp only [hpl, List.nil_append]
    exact ⟨_, _, _, hl2, htk2, by simp [Expr.isField]⟩
  · have hcall : h.isCall = false := by simpa using hcall
    obtain ⟨a, ts', off', hn, htk, hfa⟩ := (ih f (by omega)).nud h ts (ledsToks ls ++ r0) off (by omega) hl1 hcall hy
      (stop_leds _ _ _ _ hl2 h2) (by
        intro hq
        cases ls with
        | nil =>
          simp only [ledsToks, List.nil_append]
          intro hp; rw [hp] at h1; simp [Tok.lbp] at h1; omega
        | cons l ls =>
          obtain ⟨t, rest, ht1, ht2, ht3, ht4⟩ := l.toks_first
          simp only [ledsToks, ht1, List.cons_append, peekL_cons]
          intro hp
          have := hl3.1 (ht3 hp)
          cases h <;> simp [Nud.isQfield] at hq
          simp at this)
    obtain ⟨a2, ts2, off2, hl2, htk2, hla⟩ := (ih f (by omega)).loop ls rbp h.follow h [] a ts' r0 off' (by omega) hl2
      (cdOk_of_callDevOk hl3 hfa) htk h1 h2
    simp only [Parser.expr, hn]
    refine ⟨_, _, _, hl2, htk2, fun hf => ?_⟩
    have := isField_inv hf
    subst this
    rw [hla rfl]; exact hfa hf

end JmesVerif
