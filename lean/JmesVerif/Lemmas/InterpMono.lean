import JmesVerif.Model.Interp
/-!
Fuel monotonicity of the interpreter model: a result that is not the out-of-fuel error is stable
under additional fuel.  `IMonoStep n` bundles the one-step statement for all functions of the
mutual block; `iMonoStep_all` proves it by induction on `n`.
-/
namespace JmesVerif

structure IMonoStep (rt : Registry) (n : Nat) : Prop where
  interp : ∀ d a off, interp rt n d a off ≠ .error .fuel →
    interp rt (n+1) d a off = interp rt n d a off
  projectEach : ∀ xs a off, projectEach rt n xs a off ≠ .error .fuel →
    projectEach rt (n+1) xs a off = projectEach rt n xs a off
  interpAll : ∀ d es off, interpAll rt n d es off ≠ .error .fuel →
    interpAll rt (n+1) d es off = interpAll rt n d es off
  interpKVs : ∀ d kvs acc off, interpKVs rt n d kvs acc off ≠ .error .fuel →
    interpKVs rt (n+1) d kvs acc off = interpKVs rt n d kvs acc off
  mapExpref : ∀ xs a off, mapExpref rt n xs a off ≠ .error .fuel →
    mapExpref rt (n+1) xs a off = mapExpref rt n xs a off
  keysTyped : ∀ xs a ty inv off, keysTyped rt n xs a ty inv off ≠ .error .fuel →
    keysTyped rt (n+1) xs a ty inv off = keysTyped rt n xs a ty inv off
  callFn : ∀ f args off, callFn rt n f args off ≠ .error .fuel →
    callFn rt (n+1) f args off = callFn rt n f args off
  byExtreme : ∀ isMax xs a off, byExtreme rt n isMax xs a off ≠ .error .fuel →
    byExtreme rt (n+1) isMax xs a off = byExtreme rt n isMax xs a off

theorem IMonoStep.zero (rt : Registry) : IMonoStep rt 0 := by
  constructor <;> intros <;> simp_all [JmesVerif.interp, JmesVerif.projectEach, JmesVerif.interpAll,
    JmesVerif.interpKVs, JmesVerif.mapExpref, JmesVerif.keysTyped, JmesVerif.callFn, JmesVerif.byExtreme]

macro "imono_close" ih:ident h:ident : tactic => `(tactic| (
  simp only at $h:ident ⊢
  repeat' (split at $h:ident)
  all_goals (try (simp_all [($ih).interp, ($ih).projectEach, ($ih).interpAll, ($ih).interpKVs,
    ($ih).mapExpref, ($ih).keysTyped, ($ih).callFn, ($ih).byExtreme]; done))))

theorem projectEach_step (rt : Registry) (n : Nat) (ih : IMonoStep rt n) : ∀ xs a off,
    projectEach rt (n+1) xs a off ≠ .error .fuel →
    projectEach rt (n+2) xs a off = projectEach rt (n+1) xs a off := by
  intro xs a off h
  rw [projectEach.eq_def] at h ⊢
  conv => rhs; rw [projectEach.eq_def]
  imono_close ih h

theorem interpAll_step (rt : Registry) (n : Nat) (ih : IMonoStep rt n) : ∀ d es off,
    interpAll rt (n+1) d es off ≠ .error .fuel →
    interpAll rt (n+2) d es off = interpAll rt (n+1) d es off := by
  intro d es off h
  rw [interpAll.eq_def] at h ⊢
  conv => rhs; rw [interpAll.eq_def]
  imono_close ih h

theorem interpKVs_step (rt : Registry) (n : Nat) (ih : IMonoStep rt n) : ∀ d kvs acc off,
    interpKVs rt (n+1) d kvs acc off ≠ .error .fuel →
    interpKVs rt (n+2) d kvs acc off = interpKVs rt (n+1) d kvs acc off := by
  intro d kvs acc off h
  rw [interpKVs.eq_def] at h ⊢
  conv => rhs; rw [interpKVs.eq_def]
  imono_close ih h

theorem mapExpref_step (rt : Registry) (n : Nat) (ih : IMonoStep rt n) : ∀ xs a off,
    mapExpref rt (n+1) xs a off ≠ .error .fuel →
    mapExpref rt (n+2) xs a off = mapExpref rt (n+1) xs a off := by
  intro xs a off h
  rw [mapExpref.eq_def] at h ⊢
  conv => rhs; rw [mapExpref.eq_def]
  imono_close ih h

theorem keysTyped_step (rt : Registry) (n : Nat) (ih : IMonoStep rt n) : ∀ xs a ty inv off,
    keysTyped rt (n+1) xs a ty inv off ≠ .error .fuel →
    keysTyped rt (n+2) xs a ty inv off = keysTyped rt (n+1) xs a ty inv off := by
  intro xs a ty inv off h
  rw [keysTyped.eq_def] at h ⊢
  conv => rhs; rw [keysTyped.eq_def]
  imono_close ih h

theorem callFn_step (rt : Registry) (n : Nat) (ih : IMonoStep rt n) : ∀ f args off,
    callFn rt (n+1) f args off ≠ .error .fuel →
    callFn rt (n+2) f args off = callFn rt (n+1) f args off := by
  intro f args off h
  rw [callFn.eq_def] at h ⊢
  conv => rhs; rw [callFn.eq_def]
  imono_close ih h

theorem byExtreme_step (rt : Registry) (n : Nat) (ih : IMonoStep rt n) : ∀ isMax xs a off,
    byExtreme rt (n+1) isMax xs a off ≠ .error .fuel →
    byExtreme rt (n+2) isMax xs a off = byExtreme rt (n+1) isMax xs a off := by
  intro isMax xs a off h
  rw [byExtreme.eq_def] at h ⊢
  conv => rhs; rw [byExtreme.eq_def]
  imono_close ih h

theorem interp_step (rt : Registry) (n : Nat) (ih : IMonoStep rt n) : ∀ d a off,
    interp rt (n+1) d a off ≠ .error .fuel →
    interp rt (n+2) d a off = interp rt (n+1) d a off := by
  intro d a off h
  rw [interp.eq_def] at h ⊢
  conv => rhs; rw [interp.eq_def]
  imono_close ih h

theorem iMonoStep_all (rt : Registry) : ∀ n, IMonoStep rt n
  | 0 => IMonoStep.zero rt
  | n + 1 =>
    have ih := iMonoStep_all rt n
    ⟨interp_step rt n ih, projectEach_step rt n ih, interpAll_step rt n ih, interpKVs_step rt n ih,
     mapExpref_step rt n ih, keysTyped_step rt n ih, callFn_step rt n ih, byExtreme_step rt n ih⟩

theorem imono_iter {α : Type} (f : Nat → α) (bad : α) (step : ∀ n, f n ≠ bad → f (n+1) = f n)
    (n : Nat) (r : α) (h : f n = r) (hr : r ≠ bad) : ∀ m, n ≤ m → f m = r := by
  intro m hm
  induction m with
  | zero => have : n = 0 := by omega
            subst this; exact h
  | succ m ih =>
    by_cases hnm : n = m + 1
    · subst hnm; exact h
    · have := ih (by omega)
      rw [step m (by rw [this]; exact hr), this]

/-- two runs of a fuel-monotone function agree unless one of them ran out of fuel -/
theorem imono_det {α : Type} (f : Nat → α) (bad : α) (step : ∀ n, f n ≠ bad → f (n+1) = f n)
    (n : Nat) (r : α) (h : f n = r) (hr : r ≠ bad) (m : Nat) : f m = bad ∨ f m = r := by
  by_cases hm : f m = bad
  · exact .inl hm
  · right
    rcases Nat.le_total n m with hle | hle
    · exact imono_iter f bad step n r h hr m hle
    · rw [← h]; exact (imono_iter f bad step m (f m) rfl hm n hle).symm

theorem interp_mono (rt : Registry) (fuel : Nat) (d : Val) (a : Ast) (off : Nat) (r : ERes Val)
    (h : interp rt fuel d a off = r) (hr : r ≠ .error .fuel) :
    ∀ fuel', fuel ≤ fuel' → interp rt fuel' d a off = r :=
  imono_iter (fun n => interp rt n d a off) _ (fun n => (iMonoStep_all rt n).interp d a off) fuel r h hr

theorem interp_det (rt : Registry) (fuel : Nat) (d : Val) (a : Ast) (off : Nat) (r : ERes Val)
    (h : interp rt fuel d a off = r) (hr : r ≠ .error .fuel) (fuel' : Nat) :
    interp rt fuel' d a off = .error .fuel ∨ interp rt fuel' d a off = r :=
  imono_det (fun n => interp rt n d a off) _ (fun n => (iMonoStep_all rt n).interp d a off) fuel r h hr fuel'

theorem projectEach_mono (rt : Registry) (fuel : Nat) (xs : List Val) (a : Ast) (off : Nat) (r : ERes (List Val))
    (h : projectEach rt fuel xs a off = r) (hr : r ≠ .error .fuel) :
    ∀ fuel', fuel ≤ fuel' → projectEach rt fuel' xs a off = r :=
  imono_iter (fun n => projectEach rt n xs a off) _ (fun n => (iMonoStep_all rt n).projectEach xs a off) fuel r h hr

theorem projectEach_det (rt : Registry) (fuel : Nat) (xs : List Val) (a : Ast) (off : Nat) (r : ERes (List Val))
    (h : projectEach rt fuel xs a off = r) (hr : r ≠ .error .fuel) (fuel' : Nat) :
    projectEach rt fuel' xs a off = .error .fuel ∨ projectEach rt fuel' xs a off = r :=
  imono_det (fun n => projectEach rt n xs a off) _ (fun n => (iMonoStep_all rt n).projectEach xs a off) fuel r h hr fuel'

theorem interpAll_mono (rt : Registry) (fuel : Nat) (d : Val) (es : List Ast) (off : Nat) (r : ERes (List Val))
    (h : interpAll rt fuel d es off = r) (hr : r ≠ .error .fuel) :
    ∀ fuel', fuel ≤ fuel' → interpAll rt fuel' d es off = r :=
  imono_iter (fun n => interpAll rt n d es off) _ (fun n => (iMonoStep_all rt n).interpAll d es off) fuel r h hr

theorem interpAll_det (rt : Registry) (fuel : Nat) (d : Val) (es : List Ast) (off : Nat) (r : ERes (List Val))
    (h : interpAll rt fuel d es off = r) (hr : r ≠ .error .fuel) (fuel' : Nat) :
    interpAll rt fuel' d es off = .error .fuel ∨ interpAll rt fuel' d es off = r :=
  imono_det (fun n => interpAll rt n d es off) _ (fun n => (iMonoStep_all rt n).interpAll d es off) fuel r h hr fuel'

theorem interpKVs_mono (rt : Registry) (fuel : Nat) (d : Val) (kvs : List (String × Ast)) (acc : List (String × Val)) (off : Nat) (r : ERes (List (String × Val)))
    (h : interpKVs rt fuel d kvs acc off = r) (hr : r ≠ .error .fuel) :
    ∀ fuel', fuel ≤ fuel' → interpKVs rt fuel' d kvs acc off = r :=
  imono_iter (fun n => interpKVs rt n d kvs acc off) _ (fun n => (iMonoStep_all rt n).interpKVs d kvs acc off) fuel r h hr

theorem interpKVs_det (rt : Registry) (fuel : Nat) (d : Val) (kvs : List (String × Ast)) (acc : List (String × Val)) (off : Nat) (r : ERes (List (String × Val)))
    (h : interpKVs rt fuel d kvs acc off = r) (hr : r ≠ .error .fuel) (fuel' : Nat) :
    interpKVs rt fuel' d kvs acc off = .error .fuel ∨ interpKVs rt fuel' d kvs acc off = r :=
  imono_det (fun n => interpKVs rt n d kvs acc off) _ (fun n => (iMonoStep_all rt n).interpKVs d kvs acc off) fuel r h hr fuel'

theorem mapExpref_mono (rt : Registry) (fuel : Nat) (xs : List Val) (a : Ast) (off : Nat) (r : ERes (List Val))
    (h : mapExpref rt fuel xs a off = r) (hr : r ≠ .error .fuel) :
    ∀ fuel', fuel ≤ fuel' → mapExpref rt fuel' xs a off = r :=
  imono_iter (fun n => mapExpref rt n xs a off) _ (fun n => (iMonoStep_all rt n).mapExpref xs a off) fuel r h hr

theorem mapExpref_det (rt : Registry) (fuel : Nat) (xs : List Val) (a : Ast) (off : Nat) (r : ERes (List Val))
    (h : mapExpref rt fuel xs a off = r) (hr : r ≠ .error .fuel) (fuel' : Nat) :
    mapExpref rt fuel' xs a off = .error .fuel ∨ mapExpref rt fuel' xs a off = r :=
  imono_det (fun n => mapExpref rt n xs a off) _ (fun n => (iMonoStep_all rt n).mapExpref xs a off) fuel r h hr fuel'

theorem keysTyped_mono (rt : Registry) (fuel : Nat) (xs : List Val) (a : Ast) (ty : JType) (inv : Nat) (off : Nat) (r : ERes (List Val))
    (h : keysTyped rt fuel xs a ty inv off = r) (hr : r ≠ .error .fuel) :
    ∀ fuel', fuel ≤ fuel' → keysTyped rt fuel' xs a ty inv off = r :=
  imono_iter (fun n => keysTyped rt n xs a ty inv off) _ (fun n => (iMonoStep_all rt n).keysTyped xs a ty inv off) fuel r h hr

theorem keysTyped_det (rt : Registry) (fuel : Nat) (xs : List Val) (a : Ast) (ty : JType) (inv : Nat) (off : Nat) (r : ERes (List Val))
    (h : keysTyped rt fuel xs a ty inv off = r) (hr : r ≠ .error .fuel) (fuel' : Nat) :
    keysTyped rt fuel' xs a ty inv off = .error .fuel ∨ keysTyped rt fuel' xs a ty inv off = r :=
  imono_det (fun n => keysTyped rt n xs a ty inv off) _ (fun n => (iMonoStep_all rt n).keysTyped xs a ty inv off) fuel r h hr fuel'

theorem callFn_mono (rt : Registry) (fuel : Nat) (f : Fn) (args : List Val) (off : Nat) (r : ERes Val)
    (h : callFn rt fuel f args off = r) (hr : r ≠ .error .fuel) :
    ∀ fuel', fuel ≤ fuel' → callFn rt fuel' f args off = r :=
  imono_iter (fun n => callFn rt n f args off) _ (fun n => (iMonoStep_all rt n).callFn f args off) fuel r h hr

theorem callFn_det (rt : Registry) (fuel : Nat) (f : Fn) (args : List Val) (off : Nat) (r : ERes Val)
    (h : callFn rt fuel f args off = r) (hr : r ≠ .error .fuel) (fuel' : Nat) :
    callFn rt fuel' f args off = .error .fuel ∨ callFn rt fuel' f args off = r :=
  imono_det (fun n => callFn rt n f args off) _ (fun n => (iMonoStep_all rt n).callFn f args off) fuel r h hr fuel'

theorem byExtreme_mono (rt : Registry) (fuel : Nat) (isMax : Bool) (xs : List Val) (a : Ast) (off : Nat) (r : ERes Val)
    (h : byExtreme rt fuel isMax xs a off = r) (hr : r ≠ .error .fuel) :
    ∀ fuel', fuel ≤ fuel' → byExtreme rt fuel' isMax xs a off = r :=
  imono_iter (fun n => byExtreme rt n isMax xs a off) _ (fun n => (iMonoStep_all rt n).byExtreme isMax xs a off) fuel r h hr

theorem byExtreme_det (rt : Registry) (fuel : Nat) (isMax : Bool) (xs : List Val) (a : Ast) (off : Nat) (r : ERes Val)
    (h : byExtreme rt fuel isMax xs a off = r) (hr : r ≠ .error .fuel) (fuel' : Nat) :
    byExtreme rt fuel' isMax xs a off = .error .fuel ∨ byExtreme rt fuel' isMax xs a off = r :=
  imono_det (fun n => byExtreme rt n isMax xs a off) _ (fun n => (iMonoStep_all rt n).byExtreme isMax xs a off) fuel r h hr fuel'

end JmesVerif
