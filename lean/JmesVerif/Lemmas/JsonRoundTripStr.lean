import JmesVerif.Model.JsonText
import JmesVerif.Model.JsonPrint
namespace JmesVerif
namespace JsonRT
open JsonText JsonPrint

theorem hexVal_hexDigit : ∀ n, n < 16 → hexVal (hexDigit n) = some n := by decide

theorem hex4_escape (n : Nat) (h : n < 32) (rest : List Char) :
    hex4 ('0' :: '0' :: hexDigit (n / 16) :: hexDigit (n % 16) :: rest) = some (n, rest) := by
  have h1 := hexVal_hexDigit (n / 16) (by omega)
  have h2 := hexVal_hexDigit (n % 16) (by omega)
  have h0 : hexVal '0' = some 0 := by decide
  simp only [hex4, h0, h1, h2]
  congr 2; omega

theorem char_eq_of_toNat {c : Char} {n : Nat} (h : c.toNat = n) : c = Char.ofNat n := by
  rw [← h, Char.ofNat_toNat]

theorem parseStrBody_escape (c : Char) (fuel : Nat) (rest acc : List Char) :
    parseStrBody (fuel + 1) (escapeChar c ++ rest) acc = parseStrBody fuel rest (c :: acc) := by
  unfold escapeChar
  split
  · subst_vars; simp [parseStrBody]
  split
  · subst_vars; simp [parseStrBody]
  split
  · rename_i h; rw [char_eq_of_toNat h]; simp [parseStrBody]
  split
  · rename_i h; rw [char_eq_of_toNat h]; simp [parseStrBody]
  split
  · subst_vars; simp [parseStrBody]
  split
  · subst_vars; simp [parseStrBody]
  split
  · subst_vars; simp [parseStrBody]
  split
  · rename_i h
    simp only [List.cons_append, List.nil_append, parseStrBody]
    rw [hex4_escape _ h]
    simp only
    rw [if_neg (by omega), if_pos (by omega), Char.ofNat_toNat]
  · rename_i h1 h2 h3 h4 h5 h6 h7 h8
    simp only [List.cons_append, List.nil_append]
    rw [parseStrBody]
    · rw [if_neg h8]
    · exact h1
    · exact h2

theorem length_escapeChar_pos (c : Char) : 1 ≤ (escapeChar c).length := by
  unfold escapeChar
  repeat' split
  all_goals simp

theorem length_le_flatMap_escape (s : List Char) : s.length ≤ (s.flatMap escapeChar).length := by
  induction s with
  | nil => simp
  | cons c s ih =>
    have := length_escapeChar_pos c
    simp only [List.flatMap_cons, List.length_append, List.length_cons]; omega

/-- ingredient 1: the escaped text of `s`, closed by a quote, decodes to `s` -/
theorem parseStrBody_flatMap (s : List Char) : ∀ (fuel : Nat) (rest acc : List Char), s.length + 1 ≤ fuel →
    parseStrBody fuel (s.flatMap escapeChar ++ '"' :: rest) acc = some (acc.reverse ++ s, rest) := by
  induction s with
  | nil =>
    intro fuel rest acc h
    obtain ⟨f, rfl⟩ : ∃ f, fuel = f + 1 := ⟨fuel - 1, by omega⟩
    simp [parseStrBody]
  | cons c s ih =>
    intro fuel rest acc h
    obtain ⟨f, rfl⟩ : ∃ f, fuel = f + 1 := ⟨fuel - 1, by omega⟩
    simp only [List.flatMap_cons, List.append_assoc]
    rw [parseStrBody_escape, ih f rest (c :: acc) (by simp at h; omega)]
    simp

/-- the text of `quote s` after its opening quote, as `parseValue`/`parseMembers` call it -/
theorem parseStrBody_quote (s : String) (rest : List Char) :
    parseStrBody ((s.toList.flatMap escapeChar ++ '"' :: rest).length + 1)
      (s.toList.flatMap escapeChar ++ '"' :: rest) [] = some (s.toList, rest) := by
  rw [parseStrBody_flatMap]
  · simp
  · have := length_le_flatMap_escape s.toList
    simp only [List.length_append, List.length_cons]; omega

theorem toList_quote (s : String) : (quote s).toList = '"' :: (s.toList.flatMap escapeChar ++ ['"']) := by
  simp [quote]

end JsonRT
end JmesVerif
