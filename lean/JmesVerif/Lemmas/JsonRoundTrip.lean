import JmesVerif.Model.JsonText
import JmesVerif.Model.JsonPrint
import JmesVerif.Lemmas.JsonRoundTripAux
/-!
# JSON printer / parser round trip

`JsonText.parse (JsonPrint.compact v).toList = some v` (and the same for `JsonPrint.pretty 0 v`) for every
value `v` that `serde_json` can print and read back: integers in the u64 / negative-i64 ranges, objects with
strictly increasing keys, nesting below the recursion limit, no expression references, and doubles for which
the float printer/parser pair round-trips (`FloatRoundTrips`, the only hypothesis; it concerns floats only).

Helper files: `JsonRoundTripStr` (string escapes), `JsonRoundTripNum` (integers),
`JsonRoundTripAux` (whitespace / container steps of the parser).
-/
namespace JmesVerif
open JsonText JsonPrint

/-- the number is one `serde_json::Number` can hold *and print so that it parses back*: u64 range, negative
i64 range, or a finite double for which the float printer/parser pair round-trips (`floatOk`) -/
def Num.Printable (floatOk : F64 → Prop) : Num → Prop
  | .pos n => n < 2 ^ 64
  | .neg i => -(2 ^ 63 : Int) ≤ i ∧ i < 0
  | .flt f => floatOk f

namespace JsonRT
mutual
/-- nesting depth: scalars 0, a container one more than its deepest child -/
def depth : Val → Nat
  | .arr xs => depthVals xs + 1
  | .obj kvs => depthKvs kvs + 1
  | _ => 0
def depthVals : List Val → Nat
  | [] => 0
  | v :: vs => max (depth v) (depthVals vs)
def depthKvs : List (String × Val) → Nat
  | [] => 0
  | (_, v) :: r => max (depth v) (depthKvs r)
end

mutual
/-- hereditarily printable numbers, strictly increasing keys, no exprefs -/
def Shape (floatOk : F64 → Prop) : Val → Prop
  | .null => True
  | .bool _ => True
  | .str _ => True
  | .num n => n.Printable floatOk
  | .arr xs => ShapeVals floatOk xs
  | .obj kvs => ShapeKvs floatOk kvs ∧ kvs.Pairwise (fun a b => a.1 < b.1)
  | .expref _ => False
def ShapeVals (floatOk : F64 → Prop) : List Val → Prop
  | [] => True
  | v :: vs => Shape floatOk v ∧ ShapeVals floatOk vs
def ShapeKvs (floatOk : F64 → Prop) : List (String × Val) → Prop
  | [] => True
  | (_, v) :: r => Shape floatOk v ∧ ShapeKvs floatOk r
end
end JsonRT

/-- hereditarily: printable numbers, objects with strictly increasing keys (what `BTreeMap` iteration
produces; needed because parsing re-inserts members with `insertKV`), no exprefs (`JsonRT.Shape`); nesting
depth < 128 (serde_json's recursion limit; arrays/objects add 1, so at most 127 nested containers) -/
def Val.Printable (floatOk : F64 → Prop) (v : Val) : Prop :=
  JsonRT.Shape floatOk v ∧ JsonRT.depth v < 128

/-- what we assume about doubles: the text `floatText f`, followed by anything that cannot continue a JSON
number, is read by `parseValue` (one unit of fuel is all a number needs) back as `f` -/
def FloatRoundTrips (f : F64) : Prop :=
  ∀ rest : List Char,
    (∀ c, rest.head? = some c → ¬ JsonText.isDigit c ∧ c ≠ '.' ∧ c ≠ 'e' ∧ c ≠ 'E' ∧ c ≠ '+' ∧ c ≠ '-') →
    JsonText.parseValue 1 128 ((JsonPrint.floatText f).toList ++ rest) = some (.num (.flt f), rest)

namespace JsonRT

mutual
theorem Shape.mono {p q : F64 → Prop} (h : ∀ f, p f → q f) : (v : Val) → Shape p v → Shape q v
  | .null, _ => trivial
  | .bool _, _ => trivial
  | .str _, _ => trivial
  | .num (.pos _), hs => hs
  | .num (.neg _), hs => hs
  | .num (.flt f), hs => h f hs
  | .arr xs, hs => ShapeVals.mono h xs hs
  | .obj kvs, hs => ⟨ShapeKvs.mono h kvs hs.1, hs.2⟩
  | .expref _, hs => hs
theorem ShapeVals.mono {p q : F64 → Prop} (h : ∀ f, p f → q f) : (xs : List Val) → ShapeVals p xs → ShapeVals q xs
  | [], _ => trivial
  | v :: vs, hs => ⟨Shape.mono h v hs.1, ShapeVals.mono h vs hs.2⟩
theorem ShapeKvs.mono {p q : F64 → Prop} (h : ∀ f, p f → q f) :
    (kvs : List (String × Val)) → ShapeKvs p kvs → ShapeKvs q kvs
  | [], _ => trivial
  | (_, v) :: r, hs => ⟨Shape.mono h v hs.1, ShapeKvs.mono h r hs.2⟩
end

theorem insertKV_append {β : Type} (k : String) (v : β) (acc : List (String × β))
    (h : ∀ a ∈ acc, a.1 < k) : insertKV k v acc = acc ++ [(k, v)] := by
  induction acc with
  | nil => rfl
  | cons a acc ih =>
    obtain ⟨k', v'⟩ := a
    have hk : k' < k := h (k', v') (by simp)
    have h1 : ¬ k < k' := String.lt_asymm hk
    have h2 : ¬ k = k' := by intro he; subst he; exact String.lt_irrefl _ hk
    simp only [insertKV, h1, h2, if_false, List.cons_append]
    rw [ih (fun a ha => h a (by simp [ha]))]

theorem numEnd_nil : NumEnd [] := by intro c h; simp at h
theorem numEnd_comma (r : List Char) : NumEnd (',' :: r) := by
  intro c h; simp at h; subst h; decide
theorem numEnd_rbrack (r : List Char) : NumEnd (']' :: r) := by
  intro c h; simp at h; subst h; decide
theorem numEnd_rbrace (r : List Char) : NumEnd ('}' :: r) := by
  intro c h; simp at h; subst h; decide


theorem fuel_succ {fuel n : Nat} (h : n + 1 ≤ fuel) : ∃ f, fuel = f + 1 := ⟨fuel - 1, by omega⟩

theorem toList_arr (xs : List Val) :
    (compact (.arr xs)).toList = '[' :: ((compactElems xs).toList ++ [']']) := by
  simp [compact]
theorem toList_obj (kvs : List (String × Val)) :
    (compact (.obj kvs)).toList = '{' :: ((compactMembers kvs).toList ++ ['}']) := by
  simp [compact]
theorem toList_elems_cons (v w : Val) (vs : List Val) :
    (compactElems (v :: w :: vs)).toList = (compact v).toList ++ ',' :: (compactElems (w :: vs)).toList := by
  simp [compactElems]
theorem toList_members_cons (k : String) (v : Val) (kv : String × Val) (r : List (String × Val)) :
    (compactMembers ((k, v) :: kv :: r)).toList =
      '"' :: (k.toList.flatMap escapeChar ++ '"' :: ':' :: ((compact v).toList ++ ',' :: (compactMembers (kv :: r)).toList)) := by
  simp [compactMembers, toList_quote]
theorem toList_members_one (k : String) (v : Val) :
    (compactMembers [(k, v)]).toList = '"' :: (k.toList.flatMap escapeChar ++ '"' :: ':' :: (compact v).toList) := by
  simp [compactMembers, toList_quote]

theorem skipWs_comma (r : List Char) : skipWs (',' :: r) = ',' :: r := by simp [skipWs, isWs]
theorem skipWs_colon (r : List Char) : skipWs (':' :: r) = ':' :: r := by simp [skipWs, isWs]
theorem skipWs_rbrack (r : List Char) : skipWs (']' :: r) = ']' :: r := by simp [skipWs, isWs]
theorem skipWs_rbrace (r : List Char) : skipWs ('}' :: r) = '}' :: r := by simp [skipWs, isWs]
theorem skipWs_quote (r : List Char) : skipWs ('"' :: r) = '"' :: r := by simp [skipWs, isWs]

mutual
theorem pv : (v : Val) → Shape FloatRoundTrips v → ∀ (fuel dp : Nat) (rest : List Char), NumEnd rest →
    depth v < dp → (compact v).toList.length + 1 ≤ fuel →
    parseValue fuel dp ((compact v).toList ++ rest) = some (v, rest)
  | .null, _, fuel, dp, rest, _, _, hf => by
    obtain ⟨f, rfl⟩ := fuel_succ hf
    simp [compact, parseValue, skipWs, isWs, matchIdent]
  | .bool true, _, fuel, dp, rest, _, _, hf => by
    obtain ⟨f, rfl⟩ := fuel_succ hf
    simp [compact, parseValue, skipWs, isWs, matchIdent]
  | .bool false, _, fuel, dp, rest, _, _, hf => by
    obtain ⟨f, rfl⟩ := fuel_succ hf
    simp [compact, parseValue, skipWs, isWs, matchIdent]
  | .num (.pos n), hs, fuel, dp, rest, hr, _, hf => by
    obtain ⟨f, rfl⟩ := fuel_succ hf
    exact parseValue_pos f dp n hs rest hr
  | .num (.neg i), hs, fuel, dp, rest, hr, _, hf => by
    obtain ⟨f, rfl⟩ := fuel_succ hf
    exact parseValue_neg f dp i hs.1 hs.2 rest hr
  | .num (.flt x), hs, fuel, dp, rest, hr, _, hf => by
    obtain ⟨f, rfl⟩ := fuel_succ hf
    exact parseValue_num_lift (hs rest hr) f dp
  | .str s, _, fuel, dp, rest, _, _, hf => by
    obtain ⟨f, rfl⟩ := fuel_succ hf
    apply parseValue_str
    simp [compact, toList_quote, skipWs_quote]
  | .arr xs, hs, fuel, dp, rest, hr, hd, hf => by
    obtain ⟨f, rfl⟩ := fuel_succ hf
    have ih := pe xs hs
    rw [depth] at hd
    rw [toList_arr] at hf ⊢
    simp only [List.cons_append, List.append_assoc, List.nil_append, List.length_cons, List.length_append,
      List.length_nil] at hf ⊢
    cases xs with
    | nil => exact parseValue_arr_nil f dp (by omega) _ _ (by simp [compactElems, skipWs_rbrack])
    | cons x xs =>
      exact parseValue_arr_of_elems (by omega) (ih (by simp) f (dp - 1) rest [] (by omega) (by omega))
  | .obj kvs, hs, fuel, dp, rest, hr, hd, hf => by
    obtain ⟨f, rfl⟩ := fuel_succ hf
    have ih := pm kvs hs.1
    rw [depth] at hd
    rw [toList_obj] at hf ⊢
    simp only [List.cons_append, List.append_assoc, List.nil_append, List.length_cons, List.length_append,
      List.length_nil] at hf ⊢
    cases kvs with
    | nil => exact parseValue_obj_nil f dp (by omega) _ _ (by simp [compactMembers, skipWs_rbrace])
    | cons x xs =>
      exact parseValue_obj_of_members (by omega)
        (ih (by simp) f (dp - 1) rest [] (by simpa using hs.2) (by omega) (by omega))
  | .expref _, hs, _, _, _, _, _, _ => by simp [Shape] at hs
theorem pe : (xs : List Val) → ShapeVals FloatRoundTrips xs → xs ≠ [] → ∀ (fuel dp : Nat) (rest : List Char) (acc : List Val),
    depthVals xs < dp → (compactElems xs).toList.length + 2 ≤ fuel →
    parseElems fuel dp ((compactElems xs).toList ++ ']' :: rest) acc = some (acc.reverse ++ xs, rest)
  | [], _, hne, _, _, _, _, _, _ => absurd rfl hne
  | v :: vs, hs, _, fuel, dp, rest, acc, hd, hf => by
    have ihv := pv v hs.1
    have ihs := pe vs hs.2
    obtain ⟨f, rfl⟩ := fuel_succ hf
    rw [depthVals] at hd
    cases vs with
    | nil =>
      have : compactElems [v] = compact v := by simp [compactElems]
      rw [this] at hf ⊢
      rw [parseElems_last (ihv f dp _ (numEnd_rbrack rest) (by omega) (by omega)) (skipWs_rbrack rest)]
      simp
    | cons w vs =>
      rw [toList_elems_cons] at hf ⊢
      simp only [List.cons_append, List.append_assoc, List.length_cons, List.length_append] at hf ⊢
      rw [parseElems_more (ihv f dp _ (numEnd_comma _) (by omega) (by omega)) (skipWs_comma _)]
      rw [ihs (by simp) f dp rest (v :: acc) (by omega) (by omega)]
      simp
theorem pm : (kvs : List (String × Val)) → ShapeKvs FloatRoundTrips kvs → kvs ≠ [] →
    ∀ (fuel dp : Nat) (rest : List Char) (acc : List (String × Val)),
    (acc ++ kvs).Pairwise (fun a b => a.1 < b.1) →
    depthKvs kvs < dp → (compactMembers kvs).toList.length + 2 ≤ fuel →
    parseMembers fuel dp ((compactMembers kvs).toList ++ '}' :: rest) acc = some (acc ++ kvs, rest)
  | [], _, hne, _, _, _, _, _, _, _ => absurd rfl hne
  | (k, v) :: r, hs, _, fuel, dp, rest, acc, hp, hd, hf => by
    have ihv := pv v hs.1
    have ihs := pm r hs.2
    obtain ⟨f, rfl⟩ := fuel_succ hf
    rw [depthKvs] at hd
    have hins : insertKV k v acc = acc ++ [(k, v)] := by
      apply insertKV_append
      intro a ha
      exact (List.pairwise_append.1 hp).2.2 a ha (k, v) (by simp)
    cases r with
    | nil =>
      rw [toList_members_one] at hf ⊢
      simp only [List.cons_append, List.append_assoc, List.length_cons, List.length_append] at hf ⊢
      rw [parseMembers_last (skipWs_quote _) (skipWs_colon _)
        (ihv f dp _ (numEnd_rbrace rest) (by omega) (by omega)) (skipWs_rbrace rest), hins]
    | cons kv r =>
      rw [toList_members_cons] at hf ⊢
      simp only [List.cons_append, List.append_assoc, List.length_cons, List.length_append] at hf ⊢
      rw [parseMembers_more (skipWs_quote _) (skipWs_colon _)
        (ihv f dp _ (numEnd_comma _) (by omega) (by omega)) (skipWs_comma _), hins]
      rw [ihs (by simp) f dp rest _ (by simpa using hp) (by omega) (by omega)]
      simp
end

/-! ### the pretty printer: same induction, `skipWs` absorbs the layout -/

theorem skipWs_ws_append (ws : List Char) (h : ∀ c ∈ ws, isWs c = true) (cs : List Char) :
    skipWs (ws ++ cs) = skipWs cs := by
  induction ws with
  | nil => rfl
  | cons c ws ih =>
    simp only [List.cons_append, skipWs, h c (by simp), if_true]
    exact ih (fun c hc => h c (by simp [hc]))

theorem parseValue_ws_append (ws : List Char) (h : ∀ c ∈ ws, isWs c = true) (fuel dp : Nat) (cs : List Char) :
    parseValue fuel dp (ws ++ cs) = parseValue fuel dp cs := by
  rw [← parseValue_skipWs, skipWs_ws_append ws h, parseValue_skipWs]

theorem parseElems_ws_append (ws : List Char) (h : ∀ c ∈ ws, isWs c = true) (fuel dp : Nat) (cs : List Char) (acc) :
    parseElems fuel dp (ws ++ cs) acc = parseElems fuel dp cs acc := by
  rw [← parseElems_skipWs, skipWs_ws_append ws h, parseElems_skipWs]

theorem parseMembers_ws_append (ws : List Char) (h : ∀ c ∈ ws, isWs c = true) (fuel dp : Nat) (cs : List Char) (acc) :
    parseMembers fuel dp (ws ++ cs) acc = parseMembers fuel dp cs acc := by
  rw [← parseMembers_skipWs, skipWs_ws_append ws h, parseMembers_skipWs]

theorem indent_ws (lvl : Nat) : ∀ c ∈ (indent lvl).toList, isWs c = true := by
  intro c hc
  simp [indent] at hc
  rw [hc.2]; rfl

theorem nl_indent_ws (lvl : Nat) : ∀ c ∈ '\n' :: (indent lvl).toList, isWs c = true := by
  intro c hc
  rcases List.mem_cons.1 hc with rfl | h
  · rfl
  · exact indent_ws lvl c h

theorem numEnd_nl (r : List Char) : NumEnd ('\n' :: r) := by
  intro c h; simp at h; subst h; decide

theorem numEnd_of_isWs {c : Char} (h : isWs c = true) (r : List Char) : NumEnd (c :: r) := by
  intro c' hc
  simp at hc; subst hc
  simp only [isWs, Bool.or_eq_true, decide_eq_true_eq] at h
  rcases h with ((rfl | rfl) | rfl) | rfl <;> decide

theorem numEnd_ws_append (ws : List Char) (h : ∀ c ∈ ws, isWs c = true) (r : List Char) (hr : NumEnd r) :
    NumEnd (ws ++ r) := by
  cases ws with
  | nil => exact hr
  | cons c ws => exact numEnd_of_isWs (h c (by simp)) _

theorem toList_pretty_arr (lvl : Nat) (x : Val) (xs : List Val) :
    (pretty lvl (.arr (x :: xs))).toList =
      '[' :: '\n' :: ((prettyElems (lvl + 1) (x :: xs)).toList ++ ('\n' :: (indent lvl).toList) ++ [']']) := by
  simp [pretty]
theorem toList_pretty_obj (lvl : Nat) (x : String × Val) (xs : List (String × Val)) :
    (pretty lvl (.obj (x :: xs))).toList =
      '{' :: '\n' :: ((prettyMembers (lvl + 1) (x :: xs)).toList ++ ('\n' :: (indent lvl).toList) ++ ['}']) := by
  simp [pretty]
theorem toList_prettyElems_one (lvl : Nat) (v : Val) :
    (prettyElems lvl [v]).toList = (indent lvl).toList ++ (pretty lvl v).toList := by
  simp [prettyElems]
theorem toList_prettyElems_cons (lvl : Nat) (v w : Val) (vs : List Val) :
    (prettyElems lvl (v :: w :: vs)).toList =
      (indent lvl).toList ++ ((pretty lvl v).toList ++ ',' :: '\n' :: (prettyElems lvl (w :: vs)).toList) := by
  simp [prettyElems]
theorem toList_prettyMembers_one (lvl : Nat) (k : String) (v : Val) :
    (prettyMembers lvl [(k, v)]).toList =
      (indent lvl).toList ++ '"' :: (k.toList.flatMap escapeChar ++ '"' :: ':' :: ' ' :: (pretty lvl v).toList) := by
  simp [prettyMembers, toList_quote]
theorem toList_prettyMembers_cons (lvl : Nat) (k : String) (v : Val) (kv : String × Val) (r : List (String × Val)) :
    (prettyMembers lvl ((k, v) :: kv :: r)).toList =
      (indent lvl).toList ++ '"' :: (k.toList.flatMap escapeChar ++ '"' :: ':' :: ' ' ::
        ((pretty lvl v).toList ++ ',' :: '\n' :: (prettyMembers lvl (kv :: r)).toList)) := by
  simp [prettyMembers, toList_quote]

theorem parseValue_sp (fuel dp : Nat) (cs : List Char) : parseValue fuel dp (' ' :: cs) = parseValue fuel dp cs :=
  parseValue_ws_append [' '] (by simp [isWs]) fuel dp cs
theorem parseElems_nl (fuel dp : Nat) (cs : List Char) (acc) : parseElems fuel dp ('\n' :: cs) acc = parseElems fuel dp cs acc :=
  parseElems_ws_append ['\n'] (by simp [isWs]) fuel dp cs acc
theorem parseMembers_nl (fuel dp : Nat) (cs : List Char) (acc) : parseMembers fuel dp ('\n' :: cs) acc = parseMembers fuel dp cs acc :=
  parseMembers_ws_append ['\n'] (by simp [isWs]) fuel dp cs acc
theorem skipWs_ws_quote (ws : List Char) (h : ∀ c ∈ ws, isWs c = true) (cs : List Char) :
    skipWs (ws ++ '"' :: cs) = '"' :: cs := by
  rw [skipWs_ws_append ws h, skipWs_quote]
theorem skipWs_ws_rbrack (ws : List Char) (h : ∀ c ∈ ws, isWs c = true) (cs : List Char) :
    skipWs (ws ++ ']' :: cs) = ']' :: cs := by
  rw [skipWs_ws_append ws h, skipWs_rbrack]
theorem skipWs_ws_rbrace (ws : List Char) (h : ∀ c ∈ ws, isWs c = true) (cs : List Char) :
    skipWs (ws ++ '}' :: cs) = '}' :: cs := by
  rw [skipWs_ws_append ws h, skipWs_rbrace]


mutual
theorem ppv : (v : Val) → Shape FloatRoundTrips v → ∀ (lvl fuel dp : Nat) (rest : List Char), NumEnd rest →
    depth v < dp → (pretty lvl v).toList.length + 1 ≤ fuel →
    parseValue fuel dp ((pretty lvl v).toList ++ rest) = some (v, rest)
  | .null, _, lvl, fuel, dp, rest, _, _, hf => by
    obtain ⟨f, rfl⟩ := fuel_succ hf
    simp [pretty, parseValue, skipWs, isWs, matchIdent]
  | .bool true, _, lvl, fuel, dp, rest, _, _, hf => by
    obtain ⟨f, rfl⟩ := fuel_succ hf
    simp [pretty, parseValue, skipWs, isWs, matchIdent]
  | .bool false, _, lvl, fuel, dp, rest, _, _, hf => by
    obtain ⟨f, rfl⟩ := fuel_succ hf
    simp [pretty, parseValue, skipWs, isWs, matchIdent]
  | .num (.pos n), hs, lvl, fuel, dp, rest, hr, _, hf => by
    obtain ⟨f, rfl⟩ := fuel_succ hf
    exact parseValue_pos f dp n hs rest hr
  | .num (.neg i), hs, lvl, fuel, dp, rest, hr, _, hf => by
    obtain ⟨f, rfl⟩ := fuel_succ hf
    exact parseValue_neg f dp i hs.1 hs.2 rest hr
  | .num (.flt x), hs, lvl, fuel, dp, rest, hr, _, hf => by
    obtain ⟨f, rfl⟩ := fuel_succ hf
    exact parseValue_num_lift (hs rest hr) f dp
  | .str s, _, lvl, fuel, dp, rest, _, _, hf => by
    obtain ⟨f, rfl⟩ := fuel_succ hf
    apply parseValue_str
    simp [pretty, toList_quote, skipWs_quote]
  | .arr xs, hs, lvl, fuel, dp, rest, hr, hd, hf => by
    obtain ⟨f, rfl⟩ := fuel_succ hf
    have ih := ppe xs hs
    rw [depth] at hd
    cases xs with
    | nil =>
      have e : (pretty lvl (.arr [])).toList = ['[', ']'] := by simp [pretty]
      rw [e]
      exact parseValue_arr_nil f dp (by omega) _ _ (skipWs_rbrack _)
    | cons x xs =>
      have e : (pretty lvl (.arr (x :: xs))).toList ++ rest =
          '[' :: ('\n' :: ((prettyElems (lvl + 1) (x :: xs)).toList ++ (('\n' :: (indent lvl).toList) ++ ']' :: rest))) := by
        rw [toList_pretty_arr]; simp
      rw [toList_pretty_arr] at hf
      simp only [List.cons_append, List.append_assoc, List.length_cons, List.length_append,
        List.length_nil] at hf
      rw [e]
      apply parseValue_arr_of_elems (by omega)
      rw [parseElems_nl]
      exact ih (by simp) (lvl + 1) f (dp - 1) rest [] _ (nl_indent_ws lvl) (by omega) (by omega)
  | .obj kvs, hs, lvl, fuel, dp, rest, hr, hd, hf => by
    obtain ⟨f, rfl⟩ := fuel_succ hf
    have ih := ppm kvs hs.1
    rw [depth] at hd
    cases kvs with
    | nil =>
      have e : (pretty lvl (.obj [])).toList = ['{', '}'] := by simp [pretty]
      rw [e]
      exact parseValue_obj_nil f dp (by omega) _ _ (skipWs_rbrace _)
    | cons x xs =>
      have e : (pretty lvl (.obj (x :: xs))).toList ++ rest =
          '{' :: ('\n' :: ((prettyMembers (lvl + 1) (x :: xs)).toList ++ (('\n' :: (indent lvl).toList) ++ '}' :: rest))) := by
        rw [toList_pretty_obj]; simp
      rw [toList_pretty_obj] at hf
      simp only [List.cons_append, List.append_assoc, List.length_cons, List.length_append,
        List.length_nil] at hf
      rw [e]
      apply parseValue_obj_of_members (by omega)
      rw [parseMembers_nl]
      exact ih (by simp) (lvl + 1) f (dp - 1) rest [] _ (nl_indent_ws lvl) (by simpa using hs.2) (by omega) (by omega)
  | .expref _, hs, _, _, _, _, _, _, _ => by simp [Shape] at hs
theorem ppe : (xs : List Val) → ShapeVals FloatRoundTrips xs → xs ≠ [] →
    ∀ (lvl fuel dp : Nat) (rest : List Char) (acc : List Val) (ws : List Char), (∀ c ∈ ws, isWs c = true) →
    depthVals xs < dp → (prettyElems lvl xs).toList.length + 2 ≤ fuel →
    parseElems fuel dp ((prettyElems lvl xs).toList ++ (ws ++ ']' :: rest)) acc = some (acc.reverse ++ xs, rest)
  | [], _, hne, _, _, _, _, _, _, _, _, _ => absurd rfl hne
  | v :: vs, hs, _, lvl, fuel, dp, rest, acc, ws, hws, hd, hf => by
    have ihv := ppv v hs.1
    have ihs := ppe vs hs.2
    obtain ⟨f, rfl⟩ := fuel_succ hf
    rw [depthVals] at hd
    cases vs with
    | nil =>
      rw [toList_prettyElems_one] at hf ⊢
      simp only [List.append_assoc, List.length_append] at hf ⊢
      rw [parseElems_ws_append _ (indent_ws lvl)]
      rw [parseElems_last (ihv lvl f dp _ (numEnd_ws_append ws hws _ (numEnd_rbrack rest)) (by omega) (by omega))
        (skipWs_ws_rbrack ws hws rest)]
      simp
    | cons w vs =>
      rw [toList_prettyElems_cons] at hf ⊢
      simp only [List.cons_append, List.append_assoc, List.length_cons, List.length_append] at hf ⊢
      rw [parseElems_ws_append _ (indent_ws lvl)]
      rw [parseElems_more (ihv lvl f dp _ (numEnd_comma _) (by omega) (by omega)) (skipWs_comma _)]
      rw [parseElems_nl, ihs (by simp) lvl f dp rest (v :: acc) ws hws (by omega) (by omega)]
      simp
theorem ppm : (kvs : List (String × Val)) → ShapeKvs FloatRoundTrips kvs → kvs ≠ [] →
    ∀ (lvl fuel dp : Nat) (rest : List Char) (acc : List (String × Val)) (ws : List Char), (∀ c ∈ ws, isWs c = true) →
    (acc ++ kvs).Pairwise (fun a b => a.1 < b.1) →
    depthKvs kvs < dp → (prettyMembers lvl kvs).toList.length + 2 ≤ fuel →
    parseMembers fuel dp ((prettyMembers lvl kvs).toList ++ (ws ++ '}' :: rest)) acc = some (acc ++ kvs, rest)
  | [], _, hne, _, _, _, _, _, _, _, _, _, _ => absurd rfl hne
  | (k, v) :: r, hs, _, lvl, fuel, dp, rest, acc, ws, hws, hp, hd, hf => by
    have ihv := ppv v hs.1
    have ihs := ppm r hs.2
    obtain ⟨f, rfl⟩ := fuel_succ hf
    rw [depthKvs] at hd
    have hins : insertKV k v acc = acc ++ [(k, v)] := by
      apply insertKV_append
      intro a ha
      exact (List.pairwise_append.1 hp).2.2 a ha (k, v) (by simp)
    cases r with
    | nil =>
      rw [toList_prettyMembers_one] at hf ⊢
      simp only [List.cons_append, List.append_assoc, List.length_cons, List.length_append] at hf ⊢
      rw [parseMembers_last (skipWs_ws_quote _ (indent_ws lvl) _) (skipWs_colon _)
        (by rw [parseValue_sp]; exact ihv lvl f dp _ (numEnd_ws_append ws hws _ (numEnd_rbrace rest)) (by omega) (by omega))
        (skipWs_ws_rbrace ws hws rest), hins]
    | cons kv r =>
      rw [toList_prettyMembers_cons] at hf ⊢
      simp only [List.cons_append, List.append_assoc, List.length_cons, List.length_append] at hf ⊢
      rw [parseMembers_more (skipWs_ws_quote _ (indent_ws lvl) _) (skipWs_colon _)
        (by rw [parseValue_sp]; exact ihv lvl f dp _ (numEnd_comma _) (by omega) (by omega)) (skipWs_comma _), hins]
      rw [parseMembers_nl, ihs (by simp) lvl f dp rest _ ws hws (by simpa using hp) (by omega) (by omega)]
      simp
end

end JsonRT

/-- parsing the compact text of a printable value yields the value -/
theorem parse_compact (v : Val) (hv : v.Printable FloatRoundTrips) :
    JsonText.parse (JsonPrint.compact v).toList = some v := by
  have h := JsonRT.pv v hv.1 (2 * (compact v).toList.length + 2) 128 [] JsonRT.numEnd_nil hv.2 (by omega)
  rw [List.append_nil] at h
  simp [parse, h, skipWs]

/-- generalisation to any float predicate that implies the round-trip property -/
theorem parse_compact_of (floatOk : F64 → Prop) (hok : ∀ f, floatOk f → FloatRoundTrips f) (v : Val)
    (hv : v.Printable floatOk) : JsonText.parse (JsonPrint.compact v).toList = some v :=
  parse_compact v ⟨JsonRT.Shape.mono hok v hv.1, hv.2⟩

/-- unconditional corollary: values without doubles -/
theorem parse_compact_noFloat (v : Val) (hv : v.Printable (fun _ => False)) :
    JsonText.parse (JsonPrint.compact v).toList = some v :=
  parse_compact_of _ (fun _ h => h.elim) v hv

/-- parsing the pretty-printed text of a printable value yields the value -/
theorem parse_pretty (v : Val) (hv : v.Printable FloatRoundTrips) :
    JsonText.parse (JsonPrint.pretty 0 v).toList = some v := by
  have h := JsonRT.ppv v hv.1 0 (2 * (pretty 0 v).toList.length + 2) 128 [] JsonRT.numEnd_nil hv.2 (by omega)
  rw [List.append_nil] at h
  simp [parse, h, skipWs]

theorem parse_pretty_noFloat (v : Val) (hv : v.Printable (fun _ => False)) :
    JsonText.parse (JsonPrint.pretty 0 v).toList = some v :=
  parse_pretty v ⟨JsonRT.Shape.mono (fun _ h => h.elim) v hv.1, hv.2⟩

end JmesVerif

#print axioms JmesVerif.parse_pretty
#print axioms JmesVerif.parse_compact_noFloat
#print axioms JmesVerif.parse_compact
