import JmesVerif.Lemmas.Positions
import JmesVerif.Lemmas.InterpJson
import JmesVerif.Lemmas.Compositional
/-!
# Where runtime errors point (C12, global invariant) — definitions and the builtin lemmas

`Ast.nodesD a` lists the `Function` nodes (`(.call name, offset)`) and `Slice` nodes
(`(.slice, offset)`) of a tree **descending into literal values** (a `Variable::Expref` held inside a
literal is a tree as well); `Val.exNodes v` does the same for every expression reference nested
anywhere in a value.  `Ast.callOffsets` / `Ast.sliceOffsets` (`Lemmas/Positions.lean`) do not
descend into literals; the two agree on trees whose literals are JSON (`Ast.LitJson`), which is what
the parser builds.
-/
namespace JmesVerif

/-- what an error can point at: a slice node, or a call node of a given function name -/
inductive OKind
  | slice
  | call (name : String)
  deriving DecidableEq, Repr

mutual
def Val.exNodes : Val → List (OKind × Nat)
  | .arr xs => exNodesVs xs
  | .obj kvs => exNodesKVs kvs
  | .expref a => Ast.nodesD a
  | _ => []
def exNodesVs : List Val → List (OKind × Nat)
  | [] => []
  | v :: vs => Val.exNodes v ++ exNodesVs vs
def exNodesKVs : List (String × Val) → List (OKind × Nat)
  | [] => []
  | (_, v) :: r => Val.exNodes v ++ exNodesKVs r
def Ast.nodesD : Ast → List (OKind × Nat)
  | .comparison _ _ l r => Ast.nodesD l ++ Ast.nodesD r
  | .condition _ p t => Ast.nodesD p ++ Ast.nodesD t
  | .identity _ => []
  | .expref _ a => Ast.nodesD a
  | .flatten _ a => Ast.nodesD a
  | .function o n args => (.call n, o) :: nodesDL args
  | .field _ _ => []
  | .index _ _ => []
  | .literal _ v => Val.exNodes v
  | .multiList _ es => nodesDL es
  | .multiHash _ kvs => nodesDK kvs
  | .not _ a => Ast.nodesD a
  | .projection _ l r => Ast.nodesD l ++ Ast.nodesD r
  | .objectValues _ a => Ast.nodesD a
  | .and _ l r => Ast.nodesD l ++ Ast.nodesD r
  | .or _ l r => Ast.nodesD l ++ Ast.nodesD r
  | .slice o _ _ _ => [(.slice, o)]
  | .subexpr _ l r => Ast.nodesD l ++ Ast.nodesD r
def nodesDL : List Ast → List (OKind × Nat)
  | [] => []
  | a :: as => Ast.nodesD a ++ nodesDL as
def nodesDK : List (String × Ast) → List (OKind × Nat)
  | [] => []
  | (_, a) :: r => Ast.nodesD a ++ nodesDK r
end

theorem mem_exNodesVs (o : OKind × Nat) (xs : List Val) :
    o ∈ exNodesVs xs ↔ ∃ x ∈ xs, o ∈ x.exNodes := by
  induction xs with
  | nil => simp [exNodesVs]
  | cons x xs ih => simp [exNodesVs, ih]
theorem mem_exNodesKVs (o : OKind × Nat) (kvs : List (String × Val)) :
    o ∈ exNodesKVs kvs ↔ ∃ p ∈ kvs, o ∈ p.2.exNodes := by
  induction kvs with
  | nil => simp [exNodesKVs]
  | cons p kvs ih => obtain ⟨s, v⟩ := p; simp [exNodesKVs, ih]
theorem mem_nodesDL (o : OKind × Nat) (as : List Ast) :
    o ∈ nodesDL as ↔ ∃ a ∈ as, o ∈ a.nodesD := by
  induction as with
  | nil => simp [nodesDL]
  | cons a as ih => simp [nodesDL, ih]
theorem mem_nodesDK (o : OKind × Nat) (as : List (String × Ast)) :
    o ∈ nodesDK as ↔ ∃ p ∈ as, o ∈ p.2.nodesD := by
  induction as with
  | nil => simp [nodesDK]
  | cons p as ih => obtain ⟨s, a⟩ := p; simp [nodesDK, ih]

/-- `true`: the error is reported at a call (everything but `InvalidSlice`) -/
def RtErr.isCall : RtErr → Bool
  | .invalidSlice => false
  | _ => true

/-- the three messages of `numOfF64` (finding F14) -/
def internalMsgs : List String :=
  ["Expected to be a valid f64", "Expected n.ceil() to be a valid f64", "Expected to be a valid number"]

/-- the three builtins that check the type of what an expression reference returns -/
def Builtin.isBy (b : Builtin) : Bool := b == .sortBy || b == .maxBy || b == .minBy

section
variable (P : OKind → Nat → Prop) (rt : Registry)

/-- every call / slice node of the tree (literals included) satisfies `P` -/
def AOk (a : Ast) : Prop := ∀ p ∈ a.nodesD, P p.1 p.2
/-- the same for every expression reference nested in a value -/
def VOk (v : Val) : Prop := ∀ p ∈ v.exNodes, P p.1 p.2

/-- the offset is that of an allowed call node whose name is bound to `f` -/
def CallAt (f : Fn) (o : Nat) : Prop := ∃ n, P (.call n) o ∧ rt.get n = some f

/-- what an error may be: a runtime error located at an allowed node of the matching kind — a slice
node for `InvalidSlice`; a call of that unregistered name for `UnknownFunction`; a call of
`sort_by` / `max_by` / `min_by` for `InvalidReturnType`; a call of a registered function for the
arity and type errors —, one of the three `numOfF64` messages, a fault of the slice loop (only when
some slice node is around; by `slice_panic_huge` only on an array longer than `i32::MAX`), or out of
fuel -/
def EOk : EvalErr → Prop
  | .runtime .invalidSlice o => P .slice o
  | .runtime (.unknownFunction n) o => P (.call n) o ∧ rt.get n = none
  | .runtime (.invalidReturnType _ _ _ _) o => ∃ b, CallAt P rt (.builtin b) o ∧ b.isBy = true
  | .runtime (.tooMany _ _) o => ∃ f, CallAt P rt f o
  | .runtime (.notEnough _ _) o => ∃ f, CallAt P rt f o
  | .runtime (.invalidType _ _ _) o => ∃ f, CallAt P rt f o
  | .internal msg => msg ∈ internalMsgs
  | .panic m => m = "slice" ∧ ∃ o, P .slice o
  | .fuel => True

def ROk {α : Type} (Q : α → Prop) : ERes α → Prop
  | .ok (x, _) => Q x
  | .error e => EOk P rt e

@[simp] theorem ROk_ok {α : Type} (Q : α → Prop) (x : α) (o : Nat) : ROk P rt Q (.ok (x, o)) ↔ Q x := Iff.rfl
@[simp] theorem ROk_error {α : Type} (Q : α → Prop) (e : EvalErr) : ROk P rt Q (.error e : ERes α) ↔ EOk P rt e := Iff.rfl
@[simp] theorem EOk_fuel : EOk P rt .fuel := trivial

@[simp] theorem VOk_null : VOk P .null := by intro p h; simp [Val.exNodes] at h
@[simp] theorem VOk_bool (b) : VOk P (.bool b) := by intro p h; simp [Val.exNodes] at h
@[simp] theorem VOk_num (b) : VOk P (.num b) := by intro p h; simp [Val.exNodes] at h
@[simp] theorem VOk_str (b) : VOk P (.str b) := by intro p h; simp [Val.exNodes] at h
@[simp] theorem VOk_arr (xs : List Val) : VOk P (.arr xs) ↔ ∀ x ∈ xs, VOk P x := by
  simp only [VOk, Val.exNodes, mem_exNodesVs]
  constructor
  · intro h p hp q hq; exact h q ⟨p, hp, hq⟩
  · rintro h q ⟨p, hp, hq⟩; exact h p hp q hq
@[simp] theorem VOk_obj (kvs : List (String × Val)) : VOk P (.obj kvs) ↔ ∀ p ∈ kvs, VOk P p.2 := by
  simp only [VOk, Val.exNodes, mem_exNodesKVs]
  constructor
  · intro h p hp q hq; exact h q ⟨p, hp, hq⟩
  · rintro h q ⟨p, hp, hq⟩; exact h p hp q hq
@[simp] theorem VOk_expref (a : Ast) : VOk P (.expref a) ↔ AOk P a := by
  simp only [VOk, AOk, Val.exNodes]

@[simp] theorem AOk_identity (o) : AOk P (.identity o) := by intro p h; simp [Ast.nodesD] at h
@[simp] theorem AOk_field (o s) : AOk P (.field o s) := by intro p h; simp [Ast.nodesD] at h
@[simp] theorem AOk_index (o s) : AOk P (.index o s) := by intro p h; simp [Ast.nodesD] at h
@[simp] theorem AOk_literal (o v) : AOk P (.literal o v) ↔ VOk P v := by simp only [VOk, AOk, Ast.nodesD]
@[simp] theorem AOk_slice (o a b c) : AOk P (.slice o a b c) ↔ P .slice o := by
  simp [AOk, Ast.nodesD]
@[simp] theorem AOk_expref (o a) : AOk P (.expref o a) ↔ AOk P a := by simp only [AOk, Ast.nodesD]
@[simp] theorem AOk_flatten (o a) : AOk P (.flatten o a) ↔ AOk P a := by simp only [AOk, Ast.nodesD]
@[simp] theorem AOk_not (o a) : AOk P (.not o a) ↔ AOk P a := by simp only [AOk, Ast.nodesD]
@[simp] theorem AOk_objectValues (o a) : AOk P (.objectValues o a) ↔ AOk P a := by simp only [AOk, Ast.nodesD]
@[simp] theorem AOk_comparison (o c l r) : AOk P (.comparison o c l r) ↔ AOk P l ∧ AOk P r := by
  simp only [AOk, Ast.nodesD, List.mem_append]; grind
@[simp] theorem AOk_condition (o l r) : AOk P (.condition o l r) ↔ AOk P l ∧ AOk P r := by
  simp only [AOk, Ast.nodesD, List.mem_append]; grind
@[simp] theorem AOk_projection (o l r) : AOk P (.projection o l r) ↔ AOk P l ∧ AOk P r := by
  simp only [AOk, Ast.nodesD, List.mem_append]; grind
@[simp] theorem AOk_and (o l r) : AOk P (.and o l r) ↔ AOk P l ∧ AOk P r := by
  simp only [AOk, Ast.nodesD, List.mem_append]; grind
@[simp] theorem AOk_or (o l r) : AOk P (.or o l r) ↔ AOk P l ∧ AOk P r := by
  simp only [AOk, Ast.nodesD, List.mem_append]; grind
@[simp] theorem AOk_subexpr (o l r) : AOk P (.subexpr o l r) ↔ AOk P l ∧ AOk P r := by
  simp only [AOk, Ast.nodesD, List.mem_append]; grind
@[simp] theorem AOk_multiList (o es) : AOk P (.multiList o es) ↔ ∀ e ∈ es, AOk P e := by
  simp only [AOk, Ast.nodesD, mem_nodesDL]
  constructor
  · intro h p hp q hq; exact h q ⟨p, hp, hq⟩
  · rintro h q ⟨p, hp, hq⟩; exact h p hp q hq
@[simp] theorem AOk_multiHash (o kvs) : AOk P (.multiHash o kvs) ↔ ∀ p ∈ kvs, AOk P p.2 := by
  simp only [AOk, Ast.nodesD, mem_nodesDK]
  constructor
  · intro h p hp q hq; exact h q ⟨p, hp, hq⟩
  · rintro h q ⟨p, hp, hq⟩; exact h p hp q hq
@[simp] theorem AOk_function (o n args) : AOk P (.function o n args) ↔ P (.call n) o ∧ ∀ e ∈ args, AOk P e := by
  simp only [AOk, Ast.nodesD, mem_nodesDL, List.mem_cons]
  constructor
  · intro h
    exact ⟨h (.call n, o) (.inl rfl), fun e he q hq => h q (.inr ⟨e, he, hq⟩)⟩
  · rintro ⟨h1, h2⟩ q (rfl | ⟨e, he, hq⟩)
    · exact h1
    · exact h2 e he q hq

/-! ### builtins only rearrange their arguments -/

theorem numOfF64_VOk (f : F64) (msg : String) (v : Val) (h : numOfF64 f msg = .ok v) : VOk P v := by
  unfold numOfF64 at h
  split at h <;> simp at h
  subst h; simp

theorem numOfF64_err (f : F64) (msg : String) (e : EvalErr) (h : numOfF64 f msg = .error e) :
    e = .internal msg := by
  unfold numOfF64 at h
  split at h <;> simp at h
  exact h.symm

theorem getField_VOk (d : Val) (k : String) (hd : VOk P d) : VOk P (d.getField k) := by
  unfold Val.getField
  split
  · rename_i kvs
    cases h : Val.lookup k kvs with
    | none => simp
    | some v =>
      obtain ⟨p, hp, rfl⟩ := lookup_mem_ij k kvs v h
      simp at hd ⊢
      exact hd _ _ hp
  · simp

theorem index_VOk (xs : List Val) (i : Int) (h : ∀ x ∈ xs, VOk P x) :
    VOk P ((indexList xs i).getD .null) := by
  cases hi : indexList xs i with
  | none => simp
  | some v => simpa using h v (indexList_mem xs i v hi)

theorem insertKV_VOk (k : String) (v : Val) (m : List (String × Val)) (hv : VOk P v)
    (hm : ∀ p ∈ m, VOk P p.2) : ∀ p ∈ insertKV k v m, VOk P p.2 := by
  intro p hp
  rcases insertKV_mem k v m p hp with rfl | h
  · exact hv
  · exact hm p h

theorem foldInsert_VOk (kvs : List (String × Val)) : ∀ (acc : List (String × Val)),
    (∀ p ∈ kvs, VOk P p.2) → (∀ p ∈ acc, VOk P p.2) →
    ∀ p ∈ kvs.foldl (fun m (kv : String × Val) => insertKV kv.1 kv.2 m) acc, VOk P p.2 := by
  induction kvs with
  | nil => intro acc _ h; simpa using h
  | cons q kvs ih =>
    intro acc hk ha
    simp only [List.foldl_cons]
    apply ih
    · intro p hp; exact hk p (by simp [hp])
    · exact insertKV_VOk P _ _ _ (hk q (by simp)) ha

theorem mergeObjs_VOk : ∀ (args : List Val) (acc : List (String × Val)),
    (∀ a ∈ args, VOk P a) → (∀ p ∈ acc, VOk P p.2) →
    ∀ p ∈ mergeObjs acc args, VOk P p.2 := by
  intro args
  induction args with
  | nil => intro acc _ h; simpa [mergeObjs] using h
  | cons a args ih =>
    intro acc hk ha
    have hk' : ∀ a ∈ args, VOk P a := fun x hx => hk x (by simp [hx])
    cases a with
    | obj kvs =>
      rw [mergeObjs]
      apply ih _ hk'
      have := hk (.obj kvs) (by simp)
      simp only [VOk_obj] at this
      exact foldInsert_VOk P kvs acc this ha
    | _ => rw [mergeObjs]; exact ih _ hk' ha; simp

theorem flatten_VOk (xs : List Val) (h : ∀ x ∈ xs, VOk P x) :
    ∀ y ∈ xs.flatMap (fun x => match x with | .arr ys => ys | other => [other]), VOk P y := by
  intro y hy
  rw [List.mem_flatMap] at hy
  obtain ⟨x, hx, hy⟩ := hy
  have hxo := h x hx
  split at hy
  · simp only [VOk_arr] at hxo; exact hxo y hy
  · simp only [List.mem_singleton] at hy; subst hy; exact hxo

/-- a builtin that does not evaluate expression references returns a value whose expression
references all come from its arguments -/
theorem pure_VOk (b : Builtin) (args : List Val) (v : Val) (ha : ∀ a ∈ args, VOk P a)
    (h : b.pure args = .ok v) : VOk P v := by
  unfold Builtin.pure at h
  split at h
  all_goals (try (exact numOfF64_VOk P _ _ _ h))
  all_goals (try (simp at h; subst h; simp; done))
  all_goals (try (simp at ha))
  all_goals (try (simp only [Except.ok.injEq] at h; subst h))
  all_goals (try (simp; done))
  all_goals (try (simpa [sortVals_mem] using ha))
  all_goals (try (split at h <;> (first | exact numOfF64_VOk P _ _ _ h | (simp at h; subst h; simp)); done))
  all_goals (try (simp at h; done))
  · rw [VOk_arr]; intro y hy
    rw [List.mem_map] at hy
    obtain ⟨⟨k, w⟩, hp, rfl⟩ := hy
    simp
  · rw [VOk_arr]; intro y hy
    rw [List.mem_map] at hy
    obtain ⟨⟨k, w⟩, hp, rfl⟩ := hy
    exact ha k w hp
  · cases hf : foldMax _ with
    | none => simp
    | some w => simpa using ha w (foldMax_mem_ij _ _ hf)
  · cases hf : foldMin _ with
    | none => simp
    | some w => simpa using ha w (foldMin_mem_ij _ _ hf)
  · rw [VOk_obj]; exact mergeObjs_VOk P args [] ha (by simp)
  · cases hf : List.find? _ args with
    | none => simp
    | some w => simpa using ha w (List.mem_of_find?_eq_some hf)

/-- the only errors a builtin body builds itself are the three `numOfF64` messages (F14), apart
from the `unreachable!()` arm -/
theorem pure_error_msg (b : Builtin) (args : List Val) (e : EvalErr) (h : b.pure args = .error e) :
    (∃ msg ∈ internalMsgs, e = .internal msg) ∨ ∃ m, e = .panic m := by
  unfold Builtin.pure at h
  split at h
  all_goals (try (have := numOfF64_err _ _ _ h; subst this; left; exact ⟨_, by simp [internalMsgs], rfl⟩))
  all_goals (try (simp at h; done))
  all_goals (try (split at h <;> (first | (have := numOfF64_err _ _ _ h; subst this; left; exact ⟨_, by simp [internalMsgs], rfl⟩) | (simp at h; done))))
  · simp at h; subst h; right; exact ⟨_, rfl⟩
end

end JmesVerif
