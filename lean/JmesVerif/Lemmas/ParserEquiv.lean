import JmesVerif.Generated.ParserCode
import JmesVerif.Lemmas.ParserFuel
import JmesVerif.Lemmas.Positions
/-!
The machine translation of `parser.rs` (`Generated/ParserCode.lean`, regenerated from the Rust source
on every run) computes what the hand-written model `Model/Parser.lean` computes.

The two use fuel differently (the model's `loop` calls `parseList` directly, the code goes through
`led`, `parse_list` and `parse_list_loop`; the model's `parseIndex` runs its token loop on a constant
budget, the code's loop pays one unit per token, ...), so the statement is big-step: whenever the
model with fuel `n` returns something other than `.error .fuel`, the code with ANY fuel `k ≥ 9 * n`
returns the corresponding result (`Sim n`; the `Cst` component is dropped, errors keep their
position).  With `expr_fuel_ok'` (the model never runs out of fuel with `8 * |ts| + 8`) this gives
the fuel-free top-level statements at the end of the file (`parseFuel ts = 72 * |ts| + 72`).

The proof scripts refer to the generated functions only by name and argument order (`f.eq_def`)
and to the fixed prelude (`peek`, `advance`, `advance_with_pos`, `err`, `tokEq`, ...): they follow
the path of the MODEL (`split at hm`) and only simplify the code side, so they do not depend on the
order of match arms, binder names, `let` nesting or `if` orientation of the generated terms.
-/
namespace JmesVerif
namespace ParserEquiv
open Generated.ParserCode

@[simp] theorem peek_zero (ts : List TokenTuple) (off : Nat) : peek ts off 0 = Parser.peekT ts := by
  cases ts with
  | nil => rfl
  | cons pt r => obtain ⟨p, t⟩ := pt; rfl
@[simp] theorem peek_nil (off n : Nat) : peek [] off n = Tok.eof := by simp [peek, eof_token]
@[simp] theorem peek_cons_succ (x : TokenTuple) (r : List TokenTuple) (off n : Nat) :
    peek (x :: r) off (n + 1) = peek r off n := by simp [peek]
@[simp] theorem peek_cons_one (x : TokenTuple) (r : List TokenTuple) (off : Nat) :
    peek (x :: r) off 1 = Parser.peekT r := by rw [← peek_zero r off]; simp [peek]
@[simp] theorem awp_cons (p : Nat) (t : Tok) (r : List TokenTuple) (off : Nat) :
    advance_with_pos ((p, t) :: r) off = ((p, t), r, p) := rfl
@[simp] theorem awp_nil (off : Nat) : advance_with_pos [] off = ((off, Tok.eof), [], off) := rfl
@[simp] theorem adv_cons (p : Nat) (t : Tok) (r : List TokenTuple) (off : Nat) :
    advance ((p, t) :: r) off = (t, r, p) := rfl
@[simp] theorem adv_nil (off : Nat) : advance [] off = (Tok.eof, [], off) := rfl
@[simp] theorem err_false (ts : List TokenTuple) (off : Nat) (t : Tok) : err ts off t false = CErr.at off := by
  simp [err]
@[simp] theorem err_true (ts : List TokenTuple) (off : Nat) (t : Tok) :
    err ts off t true = CErr.at (Parser.peekPos ts off) := by
  cases ts with
  | nil => simp [err, Parser.peekPos]
  | cons pt r => obtain ⟨p, t⟩ := pt; simp [err, Parser.peekPos]
theorem stop_eq : PROJECTION_STOP = Parser.projectionStop := rfl
@[simp] theorem peekT_cons (p : Nat) (t : Tok) (r : List PT) : Parser.peekT ((p, t) :: r) = t := rfl
@[simp] theorem peekT_nil : Parser.peekT [] = Tok.eof := rfl
@[simp] theorem peekPos_cons (p : Nat) (t : Tok) (r : List PT) (off : Nat) : Parser.peekPos ((p, t) :: r) off = p := rfl
@[simp] theorem peekPos_nil (off : Nat) : Parser.peekPos [] off = off := rfl

def closingTok : Bool → Tok
  | true => Tok.rparen
  | false => Tok.rbracket

theorem tokEq_closing (paren : Bool) (t : Tok) : tokEq t (closingTok paren) = Parser.isClosing paren t := by
  cases paren <;> cases t <;> rfl
@[simp] theorem tokEq_rparen (t : Tok) : tokEq t Tok.rparen = Parser.isClosing true t := tokEq_closing true t
@[simp] theorem tokEq_rbracket (t : Tok) : tokEq t Tok.rbracket = Parser.isClosing false t := tokEq_closing false t

/-! `Token == Token::X` for the constant tokens the parser compares with (`tokEq` itself must not be
unfolded on a token that is not yet known) -/
def isComma : Tok → Bool
  | .comma => true
  | _ => false
def isStar : Tok → Bool
  | .star => true
  | _ => false
def isColon : Tok → Bool
  | .colon => true
  | _ => false
@[simp] theorem tokEq_comma (t : Tok) : tokEq t Tok.comma = isComma t := by cases t <;> rfl
@[simp] theorem tokEq_star (t : Tok) : tokEq t Tok.star = isStar t := by cases t <;> rfl
@[simp] theorem tokEq_colon (t : Tok) : tokEq t Tok.colon = isColon t := by cases t <;> rfl

/-- the `Token::Lparen` arm of `led` is part of the model's `loop` -/
def isLp : Tok → Bool
  | .lparen => true
  | _ => false

def hid {α : Sort u} (x : α) : α := x

/-- what the model's result `m` says about the translated code's result `c` -/
def fromModel {ρ α : Type} (f : ρ → α) (m : Except PErr (ρ × List PT × Nat)) (c : PR (Res α)) : PR (Res α) :=
  match m with
  | .error .fuel => c
  | .error (.at p) => (.error (.at p), c.2.1, c.2.2)
  | .ok (r, ts, off) => (.ok (f r), ts, off)

@[simp] theorem fromModel_fuel {ρ α : Type} (f : ρ → α) (c : PR (Res α)) : fromModel f (.error .fuel) c = c := rfl
@[simp] theorem fromModel_at {ρ α : Type} (f : ρ → α) (p : Nat) (c : PR (Res α)) :
    fromModel f (.error (.at p)) c = (.error (.at p), c.2.1, c.2.2) := rfl
@[simp] theorem fromModel_ok {ρ α : Type} (f : ρ → α) (r : ρ) ts off (c : PR (Res α)) :
    fromModel f (.ok (r, ts, off)) c = (.ok (f r), ts, off) := rfl

theorem pair_err {α : Type} {x : PR (Res α)} {e : CErr} (h : x.1 = .error e) : x = (.error e, x.2.1, x.2.2) := by
  rcases x with ⟨a, b, c⟩; simp_all

structure Sim (n : Nat) : Prop where
  expr : ∀ k, 9 * n ≤ k → ∀ rbp ts off,
    expr k rbp ts off = fromModel Prod.snd (Parser.expr n rbp ts off) (hid (expr k) rbp ts off)
  loop : ∀ k, 9 * n ≤ k → ∀ rbp h acc left ts off m, Parser.loop n rbp h acc left ts off = m →
    expr_loop k rbp (.ok left) ts off = fromModel Prod.snd m (hid (expr_loop k) rbp (.ok left) ts off)
  nud : ∀ k, 9 * n ≤ k → ∀ ts off,
    nud k ts off = fromModel Prod.snd (Parser.nud n ts off) (hid (nud k) ts off)
  led : ∀ k, 9 * n ≤ k → ∀ left ts off, isLp (Parser.peekT ts) = false →
    led k left ts off = fromModel Prod.snd (Parser.led n left ts off) (hid (led k) left ts off)
  parseIndex : ∀ k, 9 * n ≤ k → ∀ ts off,
    parse_index k ts off = fromModel Prod.snd (Parser.parseIndex n ts off) (hid (parse_index k) ts off)
  projRhs : ∀ k, 9 * n ≤ k → ∀ lbp ts off,
    projection_rhs k lbp ts off = fromModel Prod.snd (Parser.projRhs n lbp ts off) (hid (projection_rhs k) lbp ts off)
  parseDot : ∀ k, 9 * n ≤ k → ∀ lbp ts off,
    parse_dot k lbp ts off = fromModel Prod.snd (Parser.parseDot n lbp ts off) (hid (parse_dot k) lbp ts off)
  multiList : ∀ k, 9 * n ≤ k → ∀ ts off,
    parse_multi_list k ts off = fromModel Prod.snd (Parser.multiList n ts off) (hid (parse_multi_list k) ts off)
  parseList : ∀ k, 9 * n ≤ k → ∀ paren ts off es as m, Parser.parseList n paren ts off es as = m →
    parse_list_loop k (closingTok paren) as ts off =
      fromModel Prod.snd m (hid (parse_list_loop k) (closingTok paren) as ts off)
  kvps : ∀ k, 9 * n ≤ k → ∀ offset ts off ks aks m, Parser.kvps n ts off ks aks = m →
    nud_loop k offset aks ts off =
      fromModel (fun r => Ast.multiHash offset r.2) m (hid (nud_loop k) offset aks ts off)
  parseFilter : ∀ k, 9 * n ≤ k → ∀ lhs ts off,
    parse_filter k lhs ts off =
      fromModel (fun r => r.2.2) (Parser.parseFilter n lhs ts off) (hid (parse_filter k) lhs ts off)
  parseFlatten : ∀ k, 9 * n ≤ k → ∀ lhs ts off,
    parse_flatten k lhs ts off = fromModel Prod.snd (Parser.parseFlatten n lhs ts off) (hid (parse_flatten k) lhs ts off)
  wildcardValues : ∀ k, 9 * n ≤ k → ∀ lhs ts off,
    parse_wildcard_values k lhs ts off =
      fromModel Prod.snd (Parser.wildcardValues n lhs ts off) (hid (parse_wildcard_values k) lhs ts off)
  wildcardIndex : ∀ k, 9 * n ≤ k → ∀ lhs ts off,
    parse_wildcard_index k lhs ts off =
      fromModel Prod.snd (Parser.wildcardIndex n lhs ts off) (hid (parse_wildcard_index k) lhs ts off)

theorem Sim.listP {n} (ih : Sim n) (k : Nat) (hk : 9 * n ≤ k) : ∀ ts off,
    parse_list_loop k Tok.rparen [] ts off =
      fromModel Prod.snd (Parser.parseList n true ts off [] []) (hid (parse_list_loop k) Tok.rparen [] ts off) :=
  fun ts off => ih.parseList k hk true ts off [] [] _ rfl
theorem Sim.listB {n} (ih : Sim n) (k : Nat) (hk : 9 * n ≤ k) : ∀ ts off,
    parse_list_loop k Tok.rbracket [] ts off =
      fromModel Prod.snd (Parser.parseList n false ts off [] []) (hid (parse_list_loop k) Tok.rbracket [] ts off) :=
  fun ts off => ih.parseList k hk false ts off [] [] _ rfl
theorem Sim.kvps0 {n} (ih : Sim n) (k : Nat) (hk : 9 * n ≤ k) : ∀ offset ts off,
    nud_loop k offset [] ts off =
      fromModel (fun r => Ast.multiHash offset r.2) (Parser.kvps n ts off [] []) (hid (nud_loop k) offset [] ts off) :=
  fun offset ts off => ih.kvps k hk offset ts off [] [] _ rfl

theorem sim_zero : Sim 0 := by
  constructor <;> intros <;> (try subst_vars) <;>
    simp [Parser.expr, Parser.loop, Parser.nud, Parser.led, Parser.parseIndex,
      Parser.projRhs, Parser.parseDot, Parser.multiList, Parser.parseList, Parser.kvps,
      Parser.parseFilter, Parser.parseFlatten, Parser.wildcardValues, Parser.wildcardIndex, hid]

set_option linter.unusedSimpArgs false

set_option hygiene false in
/-- the rules of level `n` at the fuels that occur one level up -/
macro "sim_rules" ih:ident j:ident : tactic => `(tactic| (
  have e8 := ($ih).expr ($j+8) (by omega)
  have e7 := ($ih).expr ($j+7) (by omega)
  have n8 := ($ih).nud ($j+8) (by omega)
  have i8 := ($ih).parseIndex ($j+8) (by omega)
  have p8 := ($ih).projRhs ($j+8) (by omega)
  have d8 := ($ih).parseDot ($j+8) (by omega)
  have m8 := ($ih).multiList ($j+8) (by omega)
  have lp6 := ($ih).listP ($j+6) (by omega)
  have lb7 := ($ih).listB ($j+7) (by omega)
  have k8 := ($ih).kvps0 ($j+8) (by omega)
  have f8 := ($ih).parseFilter ($j+8) (by omega)
  have fl8 := ($ih).parseFlatten ($j+8) (by omega)
  have wv8 := ($ih).wildcardValues ($j+8) (by omega)
  have wi8 := ($ih).wildcardIndex ($j+8) (by omega)))

set_option hygiene false in
/-- after both sides are unfolded: rewrite the code's sub-calls with the rules of level `n` (and the
lemmas `ls`), follow the model's path (`split at hm`), close the leaves.  For a tail-recursive model
function `t` turns what is left of `hm` (the model's tail call) into the fact `hl` about the code's
tail call. -/
macro "leafG" "[" ls:Lean.Parser.Tactic.simpLemma,* "]" hm:ident t:term : tactic => `(tactic| (
  (simp only [$ls,*, e8, e7, n8, i8, p8, d8, m8, lp6, lb7, k8, f8, fl8, wv8, wi8,
    Tok.lbp, peek_zero, peek_nil, peek_cons_succ, peek_cons_one, awp_cons, awp_nil, adv_cons, adv_nil,
    err_false, err_true, stop_eq, Parser.projectionStop, eof_token, peekT_cons, peekT_nil, peekPos_cons, peekPos_nil,
    tokEq_rparen, tokEq_rbracket, tokEq_closing, tokEq_comma, tokEq_star, tokEq_colon,
    Parser.cmpOfTok, parse_list, parse_comparator, parse_kvp,
    ne_eq, reduceCtorEq, not_false_eq_true, not_true_eq_false, Bool.not_true, Bool.not_false,
    Bool.false_eq_true, if_true, if_false, ite_true, ite_false, Nat.reduceLT, Nat.reduceLeDiff, Nat.reduceAdd,
    Nat.not_lt_zero, Nat.lt_irrefl] at $hm:ident ⊢) <;> (
  clear e8 e7 n8 i8 p8 d8 m8 lp6 lb7 k8 f8 fl8 wv8 wi8
  repeat' (split at $hm:ident)
  all_goals (try (cases $hm:ident))
  all_goals (try (have hl := $t))
  all_goals (try (simp_all; done))
  all_goals (try grind))))

/-- `leafG` when the tokens looked at are known: the token tests are evaluated -/
macro "leafT" "[" ls:Lean.Parser.Tactic.simpLemma,* "]" hm:ident t:term : tactic =>
  `(tactic| leafG [$ls,*, isComma, isStar, isColon, Parser.isClosing] $hm $t)

macro "leaf" "[" ls:Lean.Parser.Tactic.simpLemma,* "]" hm:ident : tactic =>
  `(tactic| leafT [$ls,*] $hm True.intro)

/-- the common opening of a step proof -/
macro "open_step" : tactic => `(tactic| (
  simp only [fromModel, hid]
  first | apply pair_err | skip))

theorem sim_parseFlatten (n : Nat) (ih : Sim n) : ∀ k, 9 * (n+1) ≤ k → ∀ lhs ts off,
    parse_flatten k lhs ts off = fromModel Prod.snd (Parser.parseFlatten (n+1) lhs ts off) (hid (parse_flatten k) lhs ts off) := by
  intro k hk lhs ts off
  obtain ⟨j, rfl⟩ : ∃ j, k = j + 9 := ⟨k - 9, by omega⟩
  sim_rules ih j
  generalize hm : Parser.parseFlatten (n+1) lhs ts off = m
  rcases m with (_ | p) | ⟨r, ts', off'⟩
  · rfl
  all_goals (
    open_step
    rw [Parser.parseFlatten.eq_def] at hm
    rw [parse_flatten.eq_def]
    leaf [peek_zero] hm)

theorem sim_projRhs (n : Nat) (ih : Sim n) : ∀ k, 9 * (n+1) ≤ k → ∀ lbp ts off,
    projection_rhs k lbp ts off = fromModel Prod.snd (Parser.projRhs (n+1) lbp ts off) (hid (projection_rhs k) lbp ts off) := by
  intro k hk lbp ts off
  obtain ⟨j, rfl⟩ : ∃ j, k = j + 9 := ⟨k - 9, by omega⟩
  sim_rules ih j
  generalize hm : Parser.projRhs (n+1) lbp ts off = m
  rcases m with (_ | p) | ⟨r, ts', off'⟩
  · rfl
  all_goals (
    open_step
    rw [Parser.projRhs.eq_def] at hm
    rw [projection_rhs.eq_def]
    cases ts with
    | nil => leaf [peek_zero] hm
    | cons pt r0 =>
      obtain ⟨p0, t0⟩ := pt
      cases t0 <;> leaf [peek_zero] hm)


/-- one more token of look-ahead, then `leaf` -/
macro "look_leaf" r:ident hm:ident : tactic => `(tactic| (
  cases $r:ident with
  | nil => leaf [peek_zero] $hm
  | cons pt1 r1 => (obtain ⟨p1, t1⟩ := pt1; cases t1 <;> leaf [peek_zero] $hm)))

theorem parseList_len : ∀ n paren ts off es as es' as' ts' off',
    Parser.parseList n paren ts off es as = .ok ((es', as'), ts', off') → es.length = as.length →
    es'.length = as'.length := by
  intro n
  induction n with
  | zero => intro paren ts off es as es' as' ts' off' h; simp [Parser.parseList] at h
  | succ n ih =>
    intro paren ts off es as es' as' ts' off' h hl
    rw [Parser.parseList.eq_def] at h
    simp only at h
    repeat' (split at h)
    all_goals (try (cases h))
    all_goals (try (simp_all; done))
    all_goals (try (exact ih _ _ _ _ _ _ _ _ _ h (by simp [hl])))

theorem multiList_alt (n : Nat) (ts : List PT) (off : Nat) : Parser.multiList (n+1) ts off =
    match Parser.parseList n false ts off [] [] with
    | .error e => .error e
    | .ok ((es, as), ts', off') =>
      if as.isEmpty then .error (.at off') else .ok ((es, .multiList off as), ts', off') := by
  rw [Parser.multiList.eq_def]
  simp only
  split
  · rename_i h; simp only [h]
  · rename_i es as ts' off' h
    have := parseList_len _ _ _ _ _ _ _ _ _ _ h rfl
    have e : es.isEmpty = as.isEmpty := by
      cases es <;> cases as <;> simp_all
    simp only [e, h]

theorem sim_parseDot (n : Nat) (ih : Sim n) : ∀ k, 9 * (n+1) ≤ k → ∀ lbp ts off,
    parse_dot k lbp ts off = fromModel (Prod.snd) (Parser.parseDot (n+1) lbp ts off) (hid (parse_dot k) lbp ts off) := by
  intro k hk lbp ts off
  obtain ⟨j, rfl⟩ : ∃ j, k = j + 9 := ⟨k - 9, by omega⟩
  sim_rules ih j
  generalize hm : Parser.parseDot (n+1) lbp ts off = m
  rcases m with (_ | p) | ⟨r, ts', off'⟩
  · rfl
  all_goals (
    open_step
    rw [Parser.parseDot.eq_def] at hm
    rw [parse_dot.eq_def]
    cases ts with
    | nil => leaf [peek_zero] hm
    | cons pt r0 =>
      obtain ⟨p0, t0⟩ := pt
      cases t0
      all_goals leaf [peek_zero] hm)

theorem sim_multiList (n : Nat) (ih : Sim n) : ∀ k, 9 * (n+1) ≤ k → ∀ ts off,
    parse_multi_list k ts off = fromModel (Prod.snd) (Parser.multiList (n+1) ts off) (hid (parse_multi_list k) ts off) := by
  intro k hk ts off
  obtain ⟨j, rfl⟩ : ∃ j, k = j + 9 := ⟨k - 9, by omega⟩
  sim_rules ih j
  generalize hm : Parser.multiList (n+1) ts off = m
  rcases m with (_ | p) | ⟨r, ts', off'⟩
  · rfl
  all_goals (
    open_step
    rw [multiList_alt] at hm
    rw [parse_multi_list.eq_def]
    leaf [peek_zero] hm)

theorem sim_parseFilter (n : Nat) (ih : Sim n) : ∀ k, 9 * (n+1) ≤ k → ∀ lhs ts off,
    parse_filter k lhs ts off = fromModel (fun r => r.2.2) (Parser.parseFilter (n+1) lhs ts off) (hid (parse_filter k) lhs ts off) := by
  intro k hk lhs ts off
  obtain ⟨j, rfl⟩ : ∃ j, k = j + 9 := ⟨k - 9, by omega⟩
  sim_rules ih j
  generalize hm : Parser.parseFilter (n+1) lhs ts off = m
  rcases m with (_ | p) | ⟨r, ts', off'⟩
  · rfl
  all_goals (
    open_step
    rw [Parser.parseFilter.eq_def] at hm
    rw [parse_filter.eq_def]
    leaf [peek_zero] hm)

theorem sim_wildcardValues (n : Nat) (ih : Sim n) : ∀ k, 9 * (n+1) ≤ k → ∀ lhs ts off,
    parse_wildcard_values k lhs ts off = fromModel (Prod.snd) (Parser.wildcardValues (n+1) lhs ts off) (hid (parse_wildcard_values k) lhs ts off) := by
  intro k hk lhs ts off
  obtain ⟨j, rfl⟩ : ∃ j, k = j + 9 := ⟨k - 9, by omega⟩
  sim_rules ih j
  generalize hm : Parser.wildcardValues (n+1) lhs ts off = m
  rcases m with (_ | p) | ⟨r, ts', off'⟩
  · rfl
  all_goals (
    open_step
    rw [Parser.wildcardValues.eq_def] at hm
    rw [parse_wildcard_values.eq_def]
    leaf [peek_zero] hm)

theorem sim_wildcardIndex (n : Nat) (ih : Sim n) : ∀ k, 9 * (n+1) ≤ k → ∀ lhs ts off,
    parse_wildcard_index k lhs ts off = fromModel (Prod.snd) (Parser.wildcardIndex (n+1) lhs ts off) (hid (parse_wildcard_index k) lhs ts off) := by
  intro k hk lhs ts off
  obtain ⟨j, rfl⟩ : ∃ j, k = j + 9 := ⟨k - 9, by omega⟩
  sim_rules ih j
  generalize hm : Parser.wildcardIndex (n+1) lhs ts off = m
  rcases m with (_ | p) | ⟨r, ts', off'⟩
  · rfl
  all_goals (
    open_step
    rw [Parser.wildcardIndex.eq_def] at hm
    rw [parse_wildcard_index.eq_def]
    cases ts with
    | nil => leaf [peek_zero] hm
    | cons pt r0 =>
      obtain ⟨p0, t0⟩ := pt
      cases t0
      all_goals leaf [peek_zero] hm)

theorem sim_nud (n : Nat) (ih : Sim n) : ∀ k, 9 * (n+1) ≤ k → ∀ ts off,
    nud k ts off = fromModel Prod.snd (Parser.nud (n+1) ts off) (hid (nud k) ts off) := by
  intro k hk ts off
  obtain ⟨j, rfl⟩ : ∃ j, k = j + 9 := ⟨k - 9, by omega⟩
  sim_rules ih j
  generalize hm : Parser.nud (n+1) ts off = m
  rcases m with (_ | p) | ⟨r, ts', off'⟩
  · rfl
  all_goals (
    open_step
    rw [Parser.nud.eq_def] at hm
    rw [nud.eq_def]
    cases ts with
    | nil => leaf [peek_zero] hm
    | cons pt r0 =>
      obtain ⟨p0, t0⟩ := pt
      cases t0
      case lbracket =>
        cases r0 with
        | nil => leaf [peek_zero] hm
        | cons pt1 r1 =>
          obtain ⟨p1, t1⟩ := pt1
          cases t1
          case star => look_leaf r1 hm
          all_goals leaf [peek_zero] hm
      all_goals leaf [peek_zero] hm)

theorem sim_led (n : Nat) (ih : Sim n) : ∀ k, 9 * (n+1) ≤ k → ∀ left ts off, isLp (Parser.peekT ts) = false →
    led k left ts off = fromModel Prod.snd (Parser.led (n+1) left ts off) (hid (led k) left ts off) := by
  intro k hk left ts off hlp
  obtain ⟨j, rfl⟩ : ∃ j, k = j + 9 := ⟨k - 9, by omega⟩
  sim_rules ih j
  generalize hm : Parser.led (n+1) left ts off = m
  rcases m with (_ | p) | ⟨r, ts', off'⟩
  · rfl
  all_goals (
    open_step
    rw [Parser.led.eq_def] at hm
    rw [led.eq_def]
    cases ts with
    | nil => leaf [peek_zero] hm
    | cons pt r0 =>
      obtain ⟨p0, t0⟩ := pt
      cases t0
      case lparen => simp [isLp] at hlp
      case dot => look_leaf r0 hm
      case lbracket => look_leaf r0 hm
      all_goals leaf [peek_zero] hm)

/-- Rust: `while rbp < self.peek(0).lbp() { left = self.led(Box::new(left?)); } left` — once `left`
is an `Err`, that is the result -/
@[simp] theorem expr_loop_err (k rbp : Nat) (e : CErr) (ts : List TokenTuple) (off : Nat) :
    expr_loop (k+1) rbp (.error e) ts off = (.error e, ts, off) := by
  rw [expr_loop.eq_def]
  simp only
  split <;> rfl

theorem sim_expr (n : Nat) (ih : Sim n) : ∀ k, 9 * (n+1) ≤ k → ∀ rbp ts off,
    expr k rbp ts off = fromModel Prod.snd (Parser.expr (n+1) rbp ts off) (hid (expr k) rbp ts off) := by
  intro k hk rbp ts off
  obtain ⟨j, rfl⟩ : ∃ j, k = j + 9 := ⟨k - 9, by omega⟩
  sim_rules ih j
  generalize hm : Parser.expr (n+1) rbp ts off = m
  rcases m with (_ | p) | ⟨r, ts', off'⟩
  · rfl
  all_goals (
    open_step
    rw [Parser.expr.eq_def] at hm
    rw [expr.eq_def]
    leafT [peek_zero] hm (ih.loop (j+8) (by omega) _ _ _ _ _ _ _ hm))

theorem sim_loop (n : Nat) (ih : Sim n) : ∀ k, 9 * (n+1) ≤ k → ∀ rbp h acc left ts off m,
    Parser.loop (n+1) rbp h acc left ts off = m →
    expr_loop k rbp (.ok left) ts off = fromModel Prod.snd m (hid (expr_loop k) rbp (.ok left) ts off) := by
  intro k hk rbp h acc left ts off m hm
  obtain ⟨j, rfl⟩ : ∃ j, k = j + 9 := ⟨k - 9, by omega⟩
  sim_rules ih j
  rcases m with (_ | p) | ⟨r, ts', off'⟩
  · rfl
  -- decide the loop condition first: an `if` whose condition `simp` rewrites by `rfl`-lemmas keeps a
  -- stale `Decidable` instance, which `split` cannot handle
  all_goals (
    open_step
    rw [Parser.loop.eq_def] at hm
    rw [expr_loop.eq_def]
    by_cases hr : rbp < (Parser.peekT ts).lbp
    · have hr' := Nat.not_le.mpr hr
      simp only [peek_zero, hr, hr', if_true, if_false, ite_true, ite_false, ge_iff_le, gt_iff_lt,
        not_true_eq_false, not_false_eq_true, decide_true, decide_false, Bool.not_true, Bool.not_false,
        Bool.false_eq_true] at hm ⊢
      cases ts with
      | nil => simp [Tok.lbp] at hr
      | cons pt r0 =>
        obtain ⟨p0, t0⟩ := pt
        have l8 := ih.led (j+8) (by omega) left ((p0, t0) :: r0) off
        cases t0
        case lparen =>
          rw [led.eq_def]
          cases left <;> leafT [peek_zero] hm (ih.loop (j+8) (by omega) _ _ _ _ _ _ _ hm)
        all_goals (
          replace l8 := l8 rfl
          leafT [l8] hm (ih.loop (j+8) (by omega) _ _ _ _ _ _ _ hm))
    · have hr' := Nat.le_of_not_lt hr
      simp only [peek_zero, hr, hr', if_true, if_false, ite_true, ite_false, ge_iff_le, gt_iff_lt,
        not_true_eq_false, not_false_eq_true, decide_true, decide_false, Bool.not_true, Bool.not_false,
        Bool.false_eq_true] at hm ⊢
      cases hm
      all_goals (first | rfl | simp_all))

/-- the queue is exhausted: `nud` takes the synthetic `Eof` and fails at `self.offset` -/
theorem expr_nil (k rbp off : Nat) : expr (k+2) rbp [] off = (.error (.at off), [], off) := by
  rw [expr.eq_def]
  simp only
  rw [nud.eq_def]
  simp only [awp_nil, err_false, expr_loop_err]

theorem advance_eq (ts : List TokenTuple) (off : Nat) :
    advance ts off = (Parser.peekT ts, ts.tail, Parser.peekPos ts off) := by
  cases ts with
  | nil => rfl
  | cons pt r => obtain ⟨p, t⟩ := pt; rfl

/-- the model's `parseList`, with the tests in the order of the code -/
theorem parseList_alt (n : Nat) (paren : Bool) (ts : List PT) (off : Nat) (es : List Expr) (as : List Ast) :
    Parser.parseList (n+1) paren ts off es as =
    if ts.isEmpty then .error (.at off)
    else if Parser.isClosing paren (Parser.peekT ts) then .ok ((es, as), ts.tail, Parser.peekPos ts off)
    else
      match Parser.expr n 0 ts off with
      | .error e => .error e
      | .ok ((e, a), ts1, off1) =>
        if isComma (Parser.peekT ts1) then
          if Parser.isClosing paren (Parser.peekT ts1.tail) then
            .error (.at (Parser.peekPos ts1.tail (Parser.peekPos ts1 off1)))
          else Parser.parseList n paren ts1.tail (Parser.peekPos ts1 off1) (es ++ [e]) (as ++ [a])
        else if Parser.isClosing paren (Parser.peekT ts1) then
          .ok ((es ++ [e], as ++ [a]), ts1.tail, Parser.peekPos ts1 off1)
        else .error (.at (Parser.peekPos ts1 off1)) := by
  rw [Parser.parseList.eq_def]
  cases ts with
  | nil => simp
  | cons pt r =>
    obtain ⟨p, t⟩ := pt
    simp only [List.isEmpty_cons, Bool.false_eq_true, if_false, peekT_cons, peekPos_cons, List.tail_cons]
    by_cases hc : Parser.isClosing paren t = true
    · simp only [hc, if_true]
    · simp only [hc, if_false]
      generalize Parser.expr n 0 ((p, t) :: r) off = x
      rcases x with e | ⟨⟨e, a⟩, ts1, off1⟩
      · rfl
      · simp only
        rcases ts1 with _ | ⟨⟨p2, t2⟩, r2⟩
        · simp [isComma, Parser.isClosing]
        · cases t2 <;> first | rfl | (simp [isComma] <;> rfl)

/-- the loop of `parse_list` at the closing token -/
theorem parse_list_loop_closing (k : Nat) (paren : Bool) (nodes : List Ast) (ts : List TokenTuple) (off : Nat)
    (h : Parser.isClosing paren (Parser.peekT ts) = true) :
    parse_list_loop (k+1) (closingTok paren) nodes ts off = (.ok nodes, ts.tail, Parser.peekPos ts off) := by
  rw [parse_list_loop.eq_def]
  simp [tokEq_closing, h, advance_eq]

theorem sim_parseList (n : Nat) (ih : Sim n) : ∀ k, 9 * (n+1) ≤ k → ∀ paren ts off es as m,
    Parser.parseList (n+1) paren ts off es as = m →
    parse_list_loop k (closingTok paren) as ts off =
      fromModel Prod.snd m (hid (parse_list_loop k) (closingTok paren) as ts off) := by
  intro k hk paren ts off es as m hm
  obtain ⟨j, rfl⟩ : ∃ j, k = j + 9 := ⟨k - 9, by omega⟩
  have e8 := ih.expr (j+8) (by omega)
  rcases m with (_ | p) | ⟨r, ts', off'⟩
  · rfl
  all_goals (
    open_step
    rw [parseList_alt] at hm
    rw [parse_list_loop.eq_def]
    cases ts with
    | nil =>
      have hx : expr (j+8) 0 [] off = (.error (.at off), [], off) := expr_nil (j+6) 0 off
      simp only [List.isEmpty_nil, if_true] at hm
      cases hm <;> simp [tokEq_closing, hx, Parser.isClosing]
    | cons pt r0 =>
      simp only [e8, peek_zero, tokEq_closing, tokEq_comma, advance_eq, err_true, err_false] at hm ⊢
      clear e8
      repeat' (split at hm)
      all_goals (try (cases hm))
      all_goals (try (have hl := ih.parseList (j+8) (by omega) _ _ _ _ _ _ hm))
      all_goals (try (simp_all [parse_list_loop_closing]; done))
      )

theorem sim_kvps (n : Nat) (ih : Sim n) : ∀ k, 9 * (n+1) ≤ k → ∀ offset ts off ks aks m,
    Parser.kvps (n+1) ts off ks aks = m →
    nud_loop k offset aks ts off =
      fromModel (fun r => Ast.multiHash offset r.2) m (hid (nud_loop k) offset aks ts off) := by
  intro k hk offset ts off ks aks m hm
  obtain ⟨j, rfl⟩ : ∃ j, k = j + 9 := ⟨k - 9, by omega⟩
  sim_rules ih j
  rcases m with (_ | p) | ⟨r, ts', off'⟩
  · rfl
  all_goals (
    open_step
    rw [Parser.kvps.eq_def] at hm
    rw [nud_loop.eq_def]
    cases ts with
    | nil => leaf [peek_zero] hm
    | cons pt r0 =>
      obtain ⟨p0, t0⟩ := pt
      cases t0
      case identifier =>
        cases r0 with
        | nil => leaf [peek_zero] hm
        | cons pt1 r1 =>
          obtain ⟨p1, t1⟩ := pt1
          cases t1 <;> leafT [peek_zero] hm (ih.kvps (j+8) (by omega) offset _ _ _ _ _ hm)
      case quotedIdentifier =>
        cases r0 with
        | nil => leaf [peek_zero] hm
        | cons pt1 r1 =>
          obtain ⟨p1, t1⟩ := pt1
          cases t1 <;> leafT [peek_zero] hm (ih.kvps (j+8) (by omega) offset _ _ _ _ _ hm)
      all_goals leaf [peek_zero] hm)

/-- what `Parser.parseIndex (n+1)` does with the result of its token loop -/
def idxRest (n : Nat) (r : Except PErr (Parser.IdxHdr × List PT × Nat)) :
    PRes ((Int ⊕ (SliceHdr × Rhs)) × Ast) :=
  match r with
  | .error e => .error e
  | .ok (.idx i, ts, off) => .ok ((.inl i, .index off i), ts, off)
  | .ok (.slice hd, ts, off) =>
    let step : Int := match hd.c with
      | some (some s) => s
      | _ => 1
    match Parser.projRhs n 20 ts off with
    | .error e => .error e
    | .ok ((rhs, ra), ts', off') =>
      .ok ((.inr (hd, rhs), .projection off (.slice off hd.a hd.b step) ra), ts', off')

theorem parseIndex_succ (n : Nat) (ts : List PT) (off : Nat) :
    Parser.parseIndex (n+1) ts off = idxRest n (Parser.idxLoop 8 ts off none none none 0) := by
  rw [Parser.parseIndex.eq_def]
  rfl


theorem idxRest_error (n : Nat) (e : PErr) : idxRest n (.error e) = .error e := rfl
theorem idxRest_idx (n : Nat) (i : Int) (ts : List PT) (off : Nat) :
    idxRest n (.ok (.idx i, ts, off)) = .ok ((.inl i, .index off i), ts, off) := rfl
/-- the step the model reads off the slice header -/
def stepOf (c : Option (Option Int)) : Int :=
  match c with
  | some (some s) => s
  | _ => 1
theorem stepOf_some (c : Option Int) : stepOf (some c) = c.getD 1 := by cases c <;> rfl
theorem stepOf_none : stepOf none = 1 := rfl
theorem idxRest_slice (n : Nat) (hd : SliceHdr) (ts : List PT) (off : Nat) :
    idxRest n (.ok (.slice hd, ts, off)) =
      match Parser.projRhs n 20 ts off with
      | .error e => .error e
      | .ok ((rhs, ra), ts', off') =>
        .ok ((.inr (hd, rhs), .projection off (.slice off hd.a hd.b (stepOf hd.c)) ra), ts', off') := rfl

set_option hygiene false in
macro "idx_leaf" hm:ident : tactic => `(tactic| (
  (simp only [q0, q1, q2, pj, idxRest_error, idxRest_idx, idxRest_slice, stepOf_some, stepOf_none, Tok.lbp, peek_zero, peek_nil, adv_cons, adv_nil, err_false, err_true,
    peekT_cons, peekT_nil, peekPos_cons, peekPos_nil, USIZE_MAX,
    ne_eq, reduceCtorEq, not_false_eq_true, not_true_eq_false, if_true, if_false, ite_true, ite_false,
    ge_iff_le, Nat.reduceLeDiff, Nat.reduceAdd, Nat.reduceEqDiff, Nat.reduceLT,
    Nat.zero_add, Nat.le_refl, Nat.not_succ_le_zero, Nat.add_eq_zero_iff, Nat.succ_ne_zero, and_false, and_self,
    Nat.one_ne_zero, Nat.zero_ne_one] at $hm:ident ⊢) <;> (
  clear q0 q1 q2 pj
  repeat' (first | split at $hm:ident | (simp only [idxRest_error, idxRest_idx, idxRest_slice, stepOf_some, stepOf_none] at $hm:ident))
  all_goals (try (cases $hm:ident))
  all_goals (try (simp_all; done))
  all_goals (try grind))))

/-- one iteration of the loop of `parse_index`, `pos` and the next two tokens known -/
macro "idx_body" ts:ident hm:ident : tactic => `(tactic| (
  cases $ts:ident with
  | nil => idx_leaf $hm
  | cons pt r0 =>
    obtain ⟨p0, t0⟩ := pt
    cases t0
    case number =>
      cases r0 with
      | nil => idx_leaf $hm
      | cons pt1 r1 => (obtain ⟨p1, t1⟩ := pt1; cases t1 <;> idx_leaf $hm)
    case colon =>
      cases r0 with
      | nil => idx_leaf $hm
      | cons pt1 r1 => (obtain ⟨p1, t1⟩ := pt1; cases t1 <;> idx_leaf $hm)
    all_goals idx_leaf $hm))

/-- the loop of `parse_index` (code: one unit of fuel per token, then `projection_rhs` with what is
left) against the model's `idxLoop` (own constant budget) followed by the rest of `parseIndex` -/
theorem sim_idx (n : Nat) (ih : Sim n) : ∀ i k, 9 * n + i ≤ k → ∀ a b c pos ts off,
    pos ≤ 2 → (pos < 2 → c = none) →
    parse_index_loop k (a, b, c) pos ts off =
      fromModel Prod.snd (idxRest n (Parser.idxLoop i ts off a b c pos))
        (hid (parse_index_loop k) (a, b, c) pos ts off) := by
  intro i
  induction i with
  | zero => intros; rfl
  | succ i IH =>
    intro k hk a b c pos ts off hp hc
    obtain ⟨k', rfl⟩ : ∃ k', k = k' + 1 := ⟨k - 1, by omega⟩
    have pj := ih.projRhs k' (by omega)
    have q0 := fun a b ts off => IH k' (by omega) a b none 0 ts off (by omega) (fun _ => rfl)
    have q1 := fun a b ts off => IH k' (by omega) a b none 1 ts off (by omega) (fun _ => rfl)
    have q2 := fun a b c ts off => IH k' (by omega) a b c 2 ts off (by omega) (fun h => absurd h (by omega))
    clear IH
    generalize hm : idxRest n (Parser.idxLoop (i+1) ts off a b c pos) = m
    rcases m with (_ | p) | ⟨r, ts', off'⟩
    · rfl
    all_goals (
      open_step
      rw [Parser.idxLoop.eq_def] at hm
      rw [parse_index_loop.eq_def]
      obtain rfl | rfl | rfl : pos = 0 ∨ pos = 1 ∨ pos = 2 := by omega
      · obtain rfl := hc (by omega)
        idx_body ts hm
      · obtain rfl := hc (by omega)
        idx_body ts hm
      · idx_body ts hm)

theorem sim_parseIndex (n : Nat) (ih : Sim n) : ∀ k, 9 * (n+1) ≤ k → ∀ ts off,
    parse_index k ts off = fromModel Prod.snd (Parser.parseIndex (n+1) ts off) (hid (parse_index k) ts off) := by
  intro k hk ts off
  obtain ⟨j, rfl⟩ : ∃ j, k = j + 9 := ⟨k - 9, by omega⟩
  rw [parseIndex_succ]
  have hl := sim_idx n ih 8 (j+8) (by omega) none none none 0 ts off (by omega) (fun _ => rfl)
  generalize idxRest n (Parser.idxLoop 8 ts off none none none 0) = m at hl ⊢
  rcases m with (_ | p) | ⟨r, ts', off'⟩
  · rfl
  all_goals (
    open_step
    rw [parse_index.eq_def]
    simp [hl])

theorem sim_all : ∀ n, Sim n := by
  intro n
  induction n with
  | zero => exact sim_zero
  | succ n ih =>
    exact ⟨sim_expr n ih, sim_loop n ih, sim_nud n ih, sim_led n ih, sim_parseIndex n ih, sim_projRhs n ih,
      sim_parseDot n ih, sim_multiList n ih, sim_parseList n ih, sim_kvps n ih, sim_parseFilter n ih,
      sim_parseFlatten n ih, sim_wildcardValues n ih, sim_wildcardIndex n ih⟩

/-! ## exported statements (no `hid`, no `fromModel`) -/

theorem of_ok {ρ α : Type} {f : ρ → α} {m : Except PErr (ρ × List PT × Nat)} {c x : PR (Res α)}
    {r : ρ} {ts' : List PT} {off' : Nat} (h : c = fromModel f m x) (hm : m = .ok (r, ts', off')) :
    c = (.ok (f r), ts', off') := by rw [h, hm]; rfl

theorem of_err {ρ α : Type} {f : ρ → α} {m : Except PErr (ρ × List PT × Nat)} {c x : PR (Res α)}
    {p : Nat} (h : c = fromModel f m x) (hm : m = .error (.at p)) : c.1 = .error (.at p) := by
  rw [h, hm]; rfl

end ParserEquiv

open Generated ParserEquiv

section
variable {n k : Nat} {ts ts' : List PT} {off off' p : Nat}

theorem gen_expr_eq {rbp : Nat} {e : Expr} {a : Ast}
    (h : Parser.expr n rbp ts off = .ok ((e, a), ts', off')) (hk : 9 * n ≤ k) :
    ParserCode.expr k rbp ts off = (.ok a, ts', off') := of_ok ((sim_all n).expr k hk rbp ts off) h
theorem gen_expr_err {rbp : Nat} (h : Parser.expr n rbp ts off = .error (.at p)) (hk : 9 * n ≤ k) :
    (ParserCode.expr k rbp ts off).1 = .error (.at p) := of_err ((sim_all n).expr k hk rbp ts off) h

theorem gen_expr_loop_eq {rbp : Nat} {hd : Nud} {acc : List Led} {left : Ast} {e : Expr} {a : Ast}
    (h : Parser.loop n rbp hd acc left ts off = .ok ((e, a), ts', off')) (hk : 9 * n ≤ k) :
    ParserCode.expr_loop k rbp (.ok left) ts off = (.ok a, ts', off') :=
  of_ok ((sim_all n).loop k hk rbp hd acc left ts off _ rfl) h
theorem gen_expr_loop_err {rbp : Nat} {hd : Nud} {acc : List Led} {left : Ast}
    (h : Parser.loop n rbp hd acc left ts off = .error (.at p)) (hk : 9 * n ≤ k) :
    (ParserCode.expr_loop k rbp (.ok left) ts off).1 = .error (.at p) :=
  of_err ((sim_all n).loop k hk rbp hd acc left ts off _ rfl) h

theorem gen_nud_eq {c : Nud} {a : Ast} (h : Parser.nud n ts off = .ok ((c, a), ts', off')) (hk : 9 * n ≤ k) :
    ParserCode.nud k ts off = (.ok a, ts', off') := of_ok ((sim_all n).nud k hk ts off) h
theorem gen_nud_err (h : Parser.nud n ts off = .error (.at p)) (hk : 9 * n ≤ k) :
    (ParserCode.nud k ts off).1 = .error (.at p) := of_err ((sim_all n).nud k hk ts off) h

/-- the model's `led` has no `Token::Lparen` arm (function calls are part of the model's `loop`) -/
theorem gen_led_eq {left : Ast} {c : Led} {a : Ast} (hlp : isLp (Parser.peekT ts) = false)
    (h : Parser.led n left ts off = .ok ((c, a), ts', off')) (hk : 9 * n ≤ k) :
    ParserCode.led k left ts off = (.ok a, ts', off') := of_ok ((sim_all n).led k hk left ts off hlp) h
theorem gen_led_err {left : Ast} (hlp : isLp (Parser.peekT ts) = false)
    (h : Parser.led n left ts off = .error (.at p)) (hk : 9 * n ≤ k) :
    (ParserCode.led k left ts off).1 = .error (.at p) := of_err ((sim_all n).led k hk left ts off hlp) h

theorem gen_parse_index_eq {c : Int ⊕ (SliceHdr × Rhs)} {a : Ast}
    (h : Parser.parseIndex n ts off = .ok ((c, a), ts', off')) (hk : 9 * n ≤ k) :
    ParserCode.parse_index k ts off = (.ok a, ts', off') := of_ok ((sim_all n).parseIndex k hk ts off) h
theorem gen_parse_index_err (h : Parser.parseIndex n ts off = .error (.at p)) (hk : 9 * n ≤ k) :
    (ParserCode.parse_index k ts off).1 = .error (.at p) := of_err ((sim_all n).parseIndex k hk ts off) h

theorem gen_projection_rhs_eq {lbp : Nat} {c : Rhs} {a : Ast}
    (h : Parser.projRhs n lbp ts off = .ok ((c, a), ts', off')) (hk : 9 * n ≤ k) :
    ParserCode.projection_rhs k lbp ts off = (.ok a, ts', off') := of_ok ((sim_all n).projRhs k hk lbp ts off) h
theorem gen_projection_rhs_err {lbp : Nat} (h : Parser.projRhs n lbp ts off = .error (.at p)) (hk : 9 * n ≤ k) :
    (ParserCode.projection_rhs k lbp ts off).1 = .error (.at p) := of_err ((sim_all n).projRhs k hk lbp ts off) h

theorem gen_parse_dot_eq {lbp : Nat} {c : DotRhs} {a : Ast}
    (h : Parser.parseDot n lbp ts off = .ok ((c, a), ts', off')) (hk : 9 * n ≤ k) :
    ParserCode.parse_dot k lbp ts off = (.ok a, ts', off') := of_ok ((sim_all n).parseDot k hk lbp ts off) h
theorem gen_parse_dot_err {lbp : Nat} (h : Parser.parseDot n lbp ts off = .error (.at p)) (hk : 9 * n ≤ k) :
    (ParserCode.parse_dot k lbp ts off).1 = .error (.at p) := of_err ((sim_all n).parseDot k hk lbp ts off) h

theorem gen_parse_multi_list_eq {es : List Expr} {a : Ast}
    (h : Parser.multiList n ts off = .ok ((es, a), ts', off')) (hk : 9 * n ≤ k) :
    ParserCode.parse_multi_list k ts off = (.ok a, ts', off') := of_ok ((sim_all n).multiList k hk ts off) h
theorem gen_parse_multi_list_err (h : Parser.multiList n ts off = .error (.at p)) (hk : 9 * n ≤ k) :
    (ParserCode.parse_multi_list k ts off).1 = .error (.at p) := of_err ((sim_all n).multiList k hk ts off) h

/-- `parse_list(closing)`'s loop; `nodes` = the elements parsed so far -/
theorem gen_parse_list_loop_eq {paren : Bool} {es es' : List Expr} {nodes nodes' : List Ast}
    (h : Parser.parseList n paren ts off es nodes = .ok ((es', nodes'), ts', off')) (hk : 9 * n ≤ k) :
    ParserCode.parse_list_loop k (closingTok paren) nodes ts off = (.ok nodes', ts', off') :=
  of_ok ((sim_all n).parseList k hk paren ts off es nodes _ rfl) h
theorem gen_parse_list_loop_err {paren : Bool} {es : List Expr} {nodes : List Ast}
    (h : Parser.parseList n paren ts off es nodes = .error (.at p)) (hk : 9 * n ≤ k) :
    (ParserCode.parse_list_loop k (closingTok paren) nodes ts off).1 = .error (.at p) :=
  of_err ((sim_all n).parseList k hk paren ts off es nodes _ rfl) h

/-- the `loop` of `nud`'s `Token::Lbrace` arm; `pairs` = the key/value pairs parsed so far -/
theorem gen_nud_loop_eq {offset : Nat} {ks ks' : List (Bool × String × Expr)} {pairs pairs' : List (String × Ast)}
    (h : Parser.kvps n ts off ks pairs = .ok ((ks', pairs'), ts', off')) (hk : 9 * n ≤ k) :
    ParserCode.nud_loop k offset pairs ts off = (.ok (Ast.multiHash offset pairs'), ts', off') :=
  of_ok (f := fun r => Ast.multiHash offset r.2) ((sim_all n).kvps k hk offset ts off ks pairs _ rfl) h
theorem gen_nud_loop_err {offset : Nat} {ks : List (Bool × String × Expr)} {pairs : List (String × Ast)}
    (h : Parser.kvps n ts off ks pairs = .error (.at p)) (hk : 9 * n ≤ k) :
    (ParserCode.nud_loop k offset pairs ts off).1 = .error (.at p) :=
  of_err ((sim_all n).kvps k hk offset ts off ks pairs _ rfl) h

theorem gen_parse_filter_eq {lhs : Ast} {pe : Expr} {rhs : Rhs} {a : Ast}
    (h : Parser.parseFilter n lhs ts off = .ok ((pe, rhs, a), ts', off')) (hk : 9 * n ≤ k) :
    ParserCode.parse_filter k lhs ts off = (.ok a, ts', off') := of_ok ((sim_all n).parseFilter k hk lhs ts off) h
theorem gen_parse_filter_err {lhs : Ast} (h : Parser.parseFilter n lhs ts off = .error (.at p)) (hk : 9 * n ≤ k) :
    (ParserCode.parse_filter k lhs ts off).1 = .error (.at p) := of_err ((sim_all n).parseFilter k hk lhs ts off) h

theorem gen_parse_flatten_eq {lhs : Ast} {c : Rhs} {a : Ast}
    (h : Parser.parseFlatten n lhs ts off = .ok ((c, a), ts', off')) (hk : 9 * n ≤ k) :
    ParserCode.parse_flatten k lhs ts off = (.ok a, ts', off') := of_ok ((sim_all n).parseFlatten k hk lhs ts off) h
theorem gen_parse_flatten_err {lhs : Ast} (h : Parser.parseFlatten n lhs ts off = .error (.at p)) (hk : 9 * n ≤ k) :
    (ParserCode.parse_flatten k lhs ts off).1 = .error (.at p) := of_err ((sim_all n).parseFlatten k hk lhs ts off) h

theorem gen_parse_wildcard_values_eq {lhs : Ast} {c : Rhs} {a : Ast}
    (h : Parser.wildcardValues n lhs ts off = .ok ((c, a), ts', off')) (hk : 9 * n ≤ k) :
    ParserCode.parse_wildcard_values k lhs ts off = (.ok a, ts', off') :=
  of_ok ((sim_all n).wildcardValues k hk lhs ts off) h
theorem gen_parse_wildcard_values_err {lhs : Ast}
    (h : Parser.wildcardValues n lhs ts off = .error (.at p)) (hk : 9 * n ≤ k) :
    (ParserCode.parse_wildcard_values k lhs ts off).1 = .error (.at p) :=
  of_err ((sim_all n).wildcardValues k hk lhs ts off) h

theorem gen_parse_wildcard_index_eq {lhs : Ast} {c : Rhs} {a : Ast}
    (h : Parser.wildcardIndex n lhs ts off = .ok ((c, a), ts', off')) (hk : 9 * n ≤ k) :
    ParserCode.parse_wildcard_index k lhs ts off = (.ok a, ts', off') :=
  of_ok ((sim_all n).wildcardIndex k hk lhs ts off) h
theorem gen_parse_wildcard_index_err {lhs : Ast}
    (h : Parser.wildcardIndex n lhs ts off = .error (.at p)) (hk : 9 * n ≤ k) :
    (ParserCode.parse_wildcard_index k lhs ts off).1 = .error (.at p) :=
  of_err ((sim_all n).wildcardIndex k hk lhs ts off) h

end

/-! ## top level -/

def liftE {α : Type} : Except PErr α → Except ParserCode.CErr α
  | .ok a => .ok a
  | .error .fuel => .error .fuel
  | .error (.at p) => .error (.at p)

/-- `parseTokens` with the end check of the Rust code (`Parser::parse` accepts as soon as `peek(0)`
is `Eof`, whatever follows), Ast only -/
def parseTokensR (ts : List PT) : Except PErr Ast :=
  match Parser.expr (8 * ts.length + 8) 0 ts 0 with
  | .error e => .error e
  | .ok ((_, a), rest, off) =>
    match Parser.peekT rest with
    | .eof => .ok a
    | _ => .error (.at (Parser.peekPos rest off))

theorem parseTokensR_no_fuel (ts : List PT) : parseTokensR ts ≠ .error .fuel := by
  have h := expr_fuel_ok' (8 * ts.length + 8) 0 ts 0 (by omega)
  unfold parseTokensR
  split
  · rename_i e he; intro h'; injection h' with h'; subst h'; exact h he
  · split <;> simp

/-- fuel-free big-step statement: every budget ≥ `parseFuel ts` gives the same result, the one the
model (Rust end check) describes -/
theorem gen_parse_tokens_eq (ts : List PT) (k : Nat) (hk : ParserCode.parseFuel ts ≤ k) :
    ParserCode.parse_tokens k ts = liftE (parseTokensR ts) := by
  have hnf := expr_fuel_ok' (8 * ts.length + 8) 0 ts 0 (by omega)
  have hr := (sim_all (8 * ts.length + 8)).expr k (by simp only [ParserCode.parseFuel] at hk; omega) 0 ts 0
  unfold ParserCode.parse_tokens parseTokensR
  rw [ParserCode.parse.eq_def]
  generalize Parser.expr (8 * ts.length + 8) 0 ts 0 = m at hr hnf
  rcases m with (_ | p) | ⟨⟨e, a⟩, rest, off⟩
  · exact absurd rfl hnf
  · simp only [fromModel_at] at hr
    simp [hr, liftE]
  · simp only [fromModel_ok] at hr
    simp only [hr, peek_zero, err_true]
    generalize Parser.peekPos rest off = q
    generalize Parser.peekT rest = t
    cases t <;> rfl

theorem gen_parse_eq_raw (ts : List PT) : ParserCode.run ts = liftE (parseTokensR ts) :=
  gen_parse_tokens_eq ts _ (Nat.le_refl _)

theorem gen_parse_fuel_indep (ts : List PT) (k : Nat) (hk : ParserCode.parseFuel ts ≤ k) :
    ParserCode.parse_tokens k ts = ParserCode.run ts := by
  rw [gen_parse_eq_raw, gen_parse_tokens_eq ts k hk]

theorem gen_parse_no_panic (ts : List PT) :
    ParserCode.run ts ≠ .error .fuel ∧ ParserCode.run ts ≠ .error .overflow ∧
      ParserCode.run ts ≠ .error .outOfBounds := by
  rw [gen_parse_eq_raw]
  have h := parseTokensR_no_fuel ts
  generalize parseTokensR ts = x at h
  rcases x with (_ | p) | a
  · exact absurd rfl h
  · simp [liftE]
  · simp [liftE]

/-- every `Eof` entry of the token list is its last entry (what the lexer produces) -/
def EofOnlyLast (ts : List PT) : Prop :=
  ∀ pre p post, ts = pre ++ (p, Tok.eof) :: post → post = []

theorem parseTokensR_eq (ts : List PT) (h : EofOnlyLast ts) :
    parseTokensR ts = (parseTokens ts).map (·.2) := by
  unfold parseTokensR parseTokens
  generalize hm : Parser.expr (8 * ts.length + 8) 0 ts 0 = m
  rcases m with e | ⟨⟨e, a⟩, rest, off⟩
  · rfl
  · obtain ⟨pre, hpre⟩ := Pos.expr_suffix _ _ _ _ _ _ _ hm
    rcases rest with _ | ⟨⟨p, t⟩, r⟩
    · rfl
    · cases t
      case eof =>
        obtain rfl := h pre p r hpre
        rfl
      all_goals rfl

theorem gen_parse_eq (ts : List PT) (h : EofOnlyLast ts) :
    ParserCode.run ts = liftE ((parseTokens ts).map (·.2)) := by
  rw [gen_parse_eq_raw, parseTokensR_eq ts h]

theorem eofOnlyLast_of_tokenize {cs : List Char} {ts : List PT} (h : tokenize cs = .ok ts) :
    EofOnlyLast ts := by
  obtain ⟨mid, rfl, hmid⟩ := tokenize_shape cs ts h
  intro pre p post heq
  -- the last entry of both sides
  rcases List.eq_nil_or_concat post with rfl | ⟨post', x, rfl⟩
  · rfl
  · exfalso
    have h1 : mid ++ [(Lexer.utf8Len cs, Tok.eof)] = (pre ++ (p, Tok.eof) :: post') ++ [x] := by
      rw [heq]; simp
    have h2 := List.append_inj' h1 rfl
    have hmem : (p, Tok.eof) ∈ mid := by rw [h2.1]; simp
    have := (hmid _ hmem).1
    simp [Tok.isEof] at this

theorem gen_parse_eq_tokenize {cs : List Char} {ts : List PT} (h : tokenize cs = .ok ts) :
    ParserCode.run ts = liftE ((parseTokens ts).map (·.2)) :=
  gen_parse_eq ts (eofOnlyLast_of_tokenize h)


/-! ## non-vacuity (evaluation in the kernel; token positions = byte offsets, last token `(len, eof)`) -/
section Examples
open ParserCode

/-- `a.b[0]` -/
example : run [(0, .identifier "a"), (1, .dot), (2, .identifier "b"), (3, .lbracket), (4, .number 0),
      (5, .rbracket), (6, .eof)] =
    .ok (Ast.subexpr 1 (Ast.field 0 "a") (Ast.subexpr 3 (Ast.field 2 "b") (Ast.index 5 0))) := by
  with_unfolding_all rfl

/-- ``a[?b > `true`].c | [0]`` -/
example : run [(0, .identifier "a"), (1, .filter), (3, .identifier "b"), (5, .gt), (7, .literal (.bool true)),
      (13, .rbracket), (14, .dot), (15, .identifier "c"), (17, .pipe), (19, .lbracket), (20, .number 0),
      (21, .rbracket), (22, .eof)] =
    .ok (Ast.subexpr 17
      (Ast.projection 15 (Ast.field 0 "a")
        (Ast.condition 15 (Ast.comparison 7 Cmp.gt (Ast.field 3 "b") (Ast.literal 7 (Val.bool true)))
          (Ast.field 15 "c")))
      (Ast.index 21 0)) := by
  with_unfolding_all rfl

/-- `a.` : error at the end of the input -/
example : run [(0, .identifier "a"), (1, .dot), (2, .eof)] = .error (.at 2) := by with_unfolding_all rfl
/-- `a[` -/
example : run [(0, .identifier "a"), (1, .lbracket), (2, .eof)] = .error (.at 2) := by with_unfolding_all rfl
/-- `a b` : trailing token, error at its position -/
example : run [(0, .identifier "a"), (2, .identifier "b"), (3, .eof)] = .error (.at 2) := by with_unfolding_all rfl
/-- `foo(a, b)` -/
example : run [(0, .identifier "foo"), (3, .lparen), (4, .identifier "a"), (5, .comma), (7, .identifier "b"),
      (8, .rparen), (9, .eof)] = .ok (Ast.function 3 "foo" [Ast.field 4 "a", Ast.field 7 "b"]) := by
  with_unfolding_all rfl
/-- `[1:2:3]` and `{a: b}` -/
example : run [(0, .lbracket), (1, .number 1), (2, .colon), (3, .number 2), (4, .colon), (5, .number 3),
      (6, .rbracket), (7, .eof)] = .ok (Ast.projection 6 (Ast.slice 6 (some 1) (some 2) 3) (Ast.identity 6)) := by
  with_unfolding_all rfl
example : run [(0, .lbrace), (1, .identifier "a"), (2, .colon), (4, .identifier "b"), (5, .rbrace), (6, .eof)] =
    .ok (Ast.multiHash 0 [("a", Ast.field 4 "b")]) := by
  with_unfolding_all rfl

/-- the documented deviation of the hand model on a token list the lexer cannot produce (an `Eof`
in the middle): the code accepts at the first `Eof`, `parseTokens` wants the whole list consumed -/
example : run [(0, .identifier "a"), (1, .eof), (2, .identifier "b")] = .ok (Ast.field 0 "a") := by
  with_unfolding_all rfl
example : (parseTokens [(0, .identifier "a"), (1, .eof), (2, .identifier "b")]).map (·.2) = .error (.at 1) := by
  with_unfolding_all rfl

end Examples

#print axioms gen_expr_eq
#print axioms gen_expr_err
#print axioms gen_expr_loop_eq
#print axioms gen_expr_loop_err
#print axioms gen_nud_eq
#print axioms gen_nud_err
#print axioms gen_led_eq
#print axioms gen_led_err
#print axioms gen_parse_index_eq
#print axioms gen_parse_index_err
#print axioms gen_projection_rhs_eq
#print axioms gen_projection_rhs_err
#print axioms gen_parse_dot_eq
#print axioms gen_parse_dot_err
#print axioms gen_parse_multi_list_eq
#print axioms gen_parse_multi_list_err
#print axioms gen_parse_list_loop_eq
#print axioms gen_parse_list_loop_err
#print axioms gen_nud_loop_eq
#print axioms gen_nud_loop_err
#print axioms gen_parse_filter_eq
#print axioms gen_parse_filter_err
#print axioms gen_parse_flatten_eq
#print axioms gen_parse_flatten_err
#print axioms gen_parse_wildcard_values_eq
#print axioms gen_parse_wildcard_values_err
#print axioms gen_parse_wildcard_index_eq
#print axioms gen_parse_wildcard_index_err
#print axioms gen_parse_tokens_eq
#print axioms gen_parse_eq_raw
#print axioms gen_parse_fuel_indep
#print axioms gen_parse_no_panic
#print axioms parseTokensR_eq
#print axioms gen_parse_eq
#print axioms gen_parse_eq_tokenize

end JmesVerif
