import JmesVerif.Lemmas.FloatExactParse
/-!
# Doubles on the exact domain survive print → parse

The JSON round-trip theorem `parse_compact` (`JsonRoundTrip.lean`) takes `FloatRoundTrips f` as its only
hypothesis.  Here that hypothesis is *proved* for every finite canonical double whose shortest decimal
representation has at most 15 significant digits and a decimal exponent within `±22`
(`InExactDomain`; zeros included), which is the domain on which serde_json's default number parser —
`(significand as f64) ×/÷ 10^|e|`, one rounding — is exact:

* `shortest_spec` (`FloatExactShortest.lean`): the digits the printer finds spell a decimal that rounds to `f`;
* `parseInteger_floatBody` (`FloatExactParse.lean`): the parser reads each layout of `floatText` as a
  significand `≤ 2^53` and an exponent within `±22`;
* `f64FromParts_exact` (`FloatExactNum.lean`): on such input the parser returns the correctly rounded double.
-/
namespace JmesVerif
open F64 JsonText JsonPrint JsonRT FloatExact

/-- **the exact domain**: zero, or a finite double whose shortest decimal representation
(`JsonPrint.shortest` of its magnitude: digits `ds`, scientific exponent `ex`) satisfies
`FloatExact.DomainCond`: the digit search succeeded (`ds ≠ "0"`), `|ds| ≤ 15`, the exponent of the
integer significand `ex − (|ds| − 1)` lies within `±22`, and, when the text is laid out as `ddd000.0`
(`0 ≤ ex < 16`, `|ds| ≤ ex + 1`), the significand the parser accumulates *including the appended zero*,
`D · 10^(ex + 2 − |ds|)`, is itself a double (in particular whenever it is `≤ 2^53`;
`FloatExact.DomainCond.of_le`).  Decidable.  The last clause cannot be dropped
(`not_floatRoundTrips_counterexample`). -/
def InExactDomain : F64 → Prop
  | .fin _ m e =>
    m = 0 ∨ DomainCond (shortest (.fin false m e)).1 (shortest (.fin false m e)).2
  | _ => False

instance (f : F64) : Decidable (InExactDomain f) := by
  cases f <;> unfold InExactDomain <;> exact inferInstance

theorem ofRat_zero' : F64.ofRat 0 = .fin false 0 (-1074) := by
  simp [F64.ofRat, roundPos]

/-- `0.0` and `-0.0` -/
theorem floatRoundTrips_zero (s : Bool) : FloatRoundTrips (.fin s 0 (-1074)) := by
  intro rest hr
  have hr' : NumEnd rest := hr
  have hparse : ∀ positive, parseInteger positive ('0' :: '.' :: (['0'] ++ rest)) =
      some (.f (if positive then ofRat (((0 : Nat) : Rat) * JsonPrint.pow10 (-1))
                else (ofRat (((0 : Nat) : Rat) * JsonPrint.pow10 (-1))).neg), rest) := by
    intro positive
    rw [parseInteger_zero positive _ (NoDigit.cons (by decide) _), parseNumberTail_dot,
      parseDecimal_end positive 0 0 '.' ['0'] rest (Digits.cons (by decide) Digits.nil) (by simp)
        (NoDigit.of_numEnd hr') (NoExp.of_numEnd hr') (by decide)]
    have h0 : Nat.ofDigitChars 10 ['0'] 0 = 0 := by decide
    rw [h0, finish positive 0 _ (by decide) (by decide) (D := 0) (j := 0) (by simp) (t := -1) (by simp) rest]
    rfl
  have hz : (((0 : Nat) : Rat) * JsonPrint.pow10 (-1)) = 0 := by simp
  rw [hz, ofRat_zero'] at hparse
  cases s
  · have ht : (floatText (.fin false 0 (-1074))).toList = '0' :: '.' :: ['0'] := by decide
    rw [ht]
    exact parseValue_of_parseInteger_true (hparse true) 0 128
  · have ht : (floatText (.fin true 0 (-1074))).toList = '-' :: '0' :: '.' :: ['0'] := by decide
    rw [ht]
    exact parseValue_of_parseInteger_false (hparse false) 0 128

/-- **the float hypothesis of the JSON round trip holds on the exact domain** -/
theorem floatRoundTrips_of_exactDomain (f : F64) (hc : f.Canon) (hfin : f.isFinite)
    (hd : InExactDomain f) : FloatRoundTrips f := by
  cases f with
  | inf s => cases hfin
  | nan => cases hfin
  | fin s m e =>
    by_cases hm : m = 0
    · subst hm
      have he : e = -1074 := by
        rcases hc with ⟨_, h⟩ | ⟨_, h⟩ | ⟨h, _⟩
        · exact h
        · exact h
        · simp at h
      subst he
      exact floatRoundTrips_zero s
    · have hdom : DomainCond (shortest (.fin false m e)).1 (shortest (.fin false m e)).2 := by
        rcases hd with h | h
        · exact absurd h hm
        · exact h
      have hspec : DigitsSpec (.fin false m e) (shortest (.fin false m e)).1 (shortest (.fin false m e)).2 := by
        rcases shortest_spec (m := m) (e := e) hc hm with h | h
        · exact absurd (congrArg Prod.fst h) hdom.1
        · exact h
      intro rest hr
      have hr' : NumEnd rest := hr
      have hparse := fun positive => parseInteger_floatBody positive _ _ rest hspec.isDigit hspec.head hdom hr'
      have hval : ofRat (spelled (shortest (.fin false m e)).1 (shortest (.fin false m e)).2) = .fin false m e :=
        hspec.value
      rw [hval] at hparse
      rw [floatText_fin s m e hm]
      cases s
      · exact parseValue_of_parseInteger_true (hparse true) 0 128
      · exact parseValue_of_parseInteger_false (hparse false) 0 128

/-- **print → parse is the identity** on every value whose doubles are canonical, finite and in the
exact domain — `C08_parse_print` with its float hypothesis discharged -/
theorem parse_print_exactDomain (v : Val)
    (hv : v.Printable (fun f => f.Canon ∧ f.isFinite ∧ InExactDomain f)) :
    JsonText.parse (JsonPrint.compact v).toList = some v :=
  parse_compact_of _ (fun f h => floatRoundTrips_of_exactDomain f h.1 h.2.1 h.2.2) v hv

/-- the same for the pretty printer -/
theorem parse_pretty_exactDomain (v : Val)
    (hv : v.Printable (fun f => f.Canon ∧ f.isFinite ∧ InExactDomain f)) :
    JsonText.parse (JsonPrint.pretty 0 v).toList = some v :=
  parse_pretty v ⟨JsonRT.Shape.mono (fun f h => floatRoundTrips_of_exactDomain f h.1 h.2.1 h.2.2) v hv.1, hv.2⟩

/-! ### the domain is inhabited, and its last clause is needed -/

/-- `1.5`, `0.1`, `1e22`, `-123456789012345.0`, `1000000000000000.0`, `1.234567e-16` are in the exact
domain (kernel evaluation of the decidable predicate) -/
theorem inExactDomain_examples :
    InExactDomain (F64.ofRat (3 / 2)) ∧ InExactDomain (F64.ofRat (1 / 10)) ∧
    InExactDomain (F64.ofRat (10 ^ 22)) ∧ InExactDomain (F64.ofRat (-123456789012345)) ∧
    InExactDomain (F64.ofRat (10 ^ 15)) ∧ InExactDomain (F64.ofRat (1234567 / 10 ^ 22)) := by
  decide +kernel

example : FloatRoundTrips (F64.ofRat (1 / 10)) :=
  floatRoundTrips_of_exactDomain _ (ofRat_canon _) (by decide +kernel) inExactDomain_examples.2.1

/-- the double `7205759403792820.0`: 15 significant digits, decimal exponent 1 -/
def counterexample : F64 := .fin false 7205759403792820 0

theorem counterexample_text : (floatText counterexample).toList = "7205759403792820.0".toList := by
  decide +kernel

/-- … satisfies every clause of the domain but the last (the parser accumulates
`72057594037928200`, which is not a double) … -/
theorem counterexample_almost :
    counterexample.Canon ∧ counterexample.isFinite ∧
    (shortest counterexample).1.length ≤ 15 ∧ (shortest counterexample).1 ≠ ['0'] ∧
    (shortest counterexample).2 - (((shortest counterexample).1.length : Int) - 1) = 1 ∧
    ¬ InExactDomain counterexample :=
  ⟨Or.inr (Or.inr ⟨by decide, by decide, by decide, by decide⟩), rfl, by decide +kernel,
   by decide +kernel, by decide +kernel, by decide +kernel⟩

/-- … and is **not** read back: serde_json's default parser returns `7205759403792819.0` for the text
`7205759403792820.0`.  So "at most 15 digits, exponent within ±22" alone does not imply the round trip of
the *printed* text, which carries the extra digit of the forced `.0`. -/
theorem not_floatRoundTrips_counterexample : ¬ FloatRoundTrips counterexample := by
  intro h
  have h1 := h [] (by intro c hc; simp at hc)
  have h2 := congrArg (fun r => match r with
    | some (Val.num (Num.flt g), _) => g
    | _ => F64.nan) h1
  revert h2
  decide +kernel

end JmesVerif

#print axioms JmesVerif.FloatExact.f64FromParts_exact
#print axioms JmesVerif.FloatExact.shortest_spec
#print axioms JmesVerif.floatRoundTrips_zero
#print axioms JmesVerif.floatRoundTrips_of_exactDomain
#print axioms JmesVerif.parse_print_exactDomain
#print axioms JmesVerif.parse_pretty_exactDomain
#print axioms JmesVerif.inExactDomain_examples
#print axioms JmesVerif.not_floatRoundTrips_counterexample
