import JmesVerif.Model.Slice
import JmesVerif.Spec.PySlice

namespace JmesVerif
open Spec

/-! ### `range(a, b, step)` unfolds one element at a time -/

theorem map_range_succ (n : Nat) (a step : Int) :
    (List.range (n + 1)).map (fun (j : Nat) => a + (j : Int) * step)
      = a :: (List.range n).map (fun (j : Nat) => (a + step) + (j : Int) * step) := by
  rw [List.range_succ_eq_map]
  simp only [List.map_cons, List.map_map]
  congr 1
  · simp
  · apply List.map_congr_left
    intro j _
    simp only [Function.comp, Nat.succ_eq_add_one]
    push_cast
    rw [Int.add_mul]; omega

theorem rangeLen_up_succ {a b step : Int} (hs : step > 0) (hab : a < b) :
    rangeLen a b step = rangeLen (a + step) b step + 1 := by
  unfold rangeLen
  simp only [hs, if_true, hab]
  by_cases h : a + step < b
  · simp only [h, if_true]
    have e : b - (a + step) - 1 = (b - a - 1) + (-1) * step := by omega
    rw [e, Int.add_mul_ediv_right _ _ (by omega : step ≠ 0)]
    have : 0 ≤ (b - a - 1 + -1 * step) / step := Int.ediv_nonneg (by omega) (by omega)
    rw [Int.add_mul_ediv_right _ _ (by omega : step ≠ 0)] at this
    omega
  · simp only [h, if_false]
    have : (b - a - 1) / step = 0 := Int.ediv_eq_zero_of_lt (by omega) (by omega)
    rw [this]; rfl

theorem pyRange_up_cons {a b step : Int} (hs : step > 0) (hab : a < b) :
    pyRange a b step = a :: pyRange (a + step) b step := by
  unfold pyRange
  rw [rangeLen_up_succ hs hab, map_range_succ]

theorem pyRange_up_nil {a b step : Int} (hs : step > 0) (hab : b ≤ a) :
    pyRange a b step = [] := by
  unfold pyRange rangeLen
  have : ¬ a < b := by omega
  simp [hs, this]

theorem rangeLen_down_succ {a b step : Int} (hs : step < 0) (hab : b < a) :
    rangeLen a b step = rangeLen (a + step) b step + 1 := by
  unfold rangeLen
  have hs' : ¬ step > 0 := by omega
  simp only [hs', if_false, hs, if_true, hab]
  by_cases h : b < a + step
  · simp only [h, if_true]
    have e : a + step - b - 1 = (a - b - 1) + (-1) * (-step) := by omega
    rw [e, Int.add_mul_ediv_right _ _ (by omega : -step ≠ 0)]
    have : 0 ≤ (a - b - 1 + -1 * -step) / -step := Int.ediv_nonneg (by omega) (by omega)
    rw [Int.add_mul_ediv_right _ _ (by omega : -step ≠ 0)] at this
    omega
  · simp only [h, if_false]
    have : (a - b - 1) / (-step) = 0 := Int.ediv_eq_zero_of_lt (by omega) (by omega)
    rw [this]; rfl

theorem pyRange_down_cons {a b step : Int} (hs : step < 0) (hab : b < a) :
    pyRange a b step = a :: pyRange (a + step) b step := by
  unfold pyRange
  rw [rangeLen_down_succ hs hab, map_range_succ]

theorem pyRange_down_nil {a b step : Int} (hs : step < 0) (hab : a ≤ b) :
    pyRange a b step = [] := by
  unfold pyRange rangeLen
  have h1 : ¬ step > 0 := by omega
  have h2 : ¬ b < a := by omega
  simp [hs, h1, h2]

/-! ### the loops of the code compute `range` restricted to the list -/

def look (xs : List α) (k : Int) : Option α := if k < 0 then none else xs[k.toNat]?

theorem loopUp_eq (xs : List α) (b step : Int) (hs : step > 0) (hb : b ≤ xs.length)
    (hlen : (xs.length : Int) ≤ I32_MAX) :
    ∀ (fuel : Nat) (i : Int), 0 ≤ i → (b - i).toNat < fuel →
      loopUp xs b step fuel i = .ok ((pyRange i b step).filterMap (look xs)) := by
  intro fuel
  induction fuel with
  | zero => intro i _ h; omega
  | succ n ih =>
    intro i hi hf
    unfold loopUp
    by_cases hib : i < b
    · have hneg : ¬ i < 0 := by omega
      have hlt : i.toNat < xs.length := by omega
      simp only [hib, if_true, hneg, if_false, List.getElem?_eq_getElem hlt]
      rw [pyRange_up_cons hs hib]
      have hlook : look xs i = some xs[i.toNat] := by
        simp [look, hneg, List.getElem?_eq_getElem hlt]
      simp only [List.filterMap_cons, hlook]
      by_cases hov : i + step > I32_MAX
      · -- saturated: the next index is I32_MAX ≥ len ≥ b, and so is the ideal i + step
        have e1 : addI32 i step = I32_MAX := by simp [addI32, hov]
        have hfuel : 0 < n := by omega
        obtain ⟨m, rfl⟩ : ∃ m, n = m + 1 := ⟨n - 1, by omega⟩
        rw [e1]
        have : ¬ I32_MAX < b := by omega
        simp only [loopUp, this, if_false]
        rw [pyRange_up_nil hs (by omega)]
        simp
      · have e1 : addI32 i step = i + step := by
          have : ¬ i + step < I32_MIN := by unfold I32_MAX I32_MIN at *; omega
          simp [addI32, hov, this]
        rw [e1, ih (i + step) (by omega) (by omega)]
    · simp only [hib, if_false]
      rw [pyRange_up_nil hs (by omega)]
      simp

theorem loopDown_eq (xs : List α) (b step : Int) (hs : step < 0) (hb : -1 ≤ b)
    (hlen : (xs.length : Int) ≤ I32_MAX) :
    ∀ (fuel : Nat) (i : Int), i < xs.length → (i - b).toNat < fuel →
      loopDown xs b step fuel i = .ok ((pyRange i b step).filterMap (look xs)) := by
  intro fuel
  induction fuel with
  | zero => intro i _ h; omega
  | succ n ih =>
    intro i hi hf
    unfold loopDown
    by_cases hib : i > b
    · have hneg : ¬ i < 0 := by omega
      have hlt : i.toNat < xs.length := by omega
      simp only [hib, if_true, hneg, if_false, List.getElem?_eq_getElem hlt]
      rw [pyRange_down_cons hs hib]
      have hlook : look xs i = some xs[i.toNat] := by
        simp [look, hneg, List.getElem?_eq_getElem hlt]
      simp only [List.filterMap_cons, hlook]
      by_cases hov : i + step < I32_MIN
      · have e1 : addI32 i step = I32_MIN := by
          have : ¬ i + step > I32_MAX := by unfold I32_MAX I32_MIN at *; omega
          simp [addI32, hov, this]
        have hfuel : 0 < n := by omega
        obtain ⟨m, rfl⟩ : ∃ m, n = m + 1 := ⟨n - 1, by omega⟩
        rw [e1]
        have : ¬ I32_MIN > b := by unfold I32_MIN at *; omega
        simp only [loopDown, this, if_false]
        rw [pyRange_down_nil hs (by unfold I32_MIN at hov; omega)]
        simp
      · have e1 : addI32 i step = i + step := by
          have : ¬ i + step > I32_MAX := by unfold I32_MAX I32_MIN at *; omega
          simp [addI32, hov, this]
        rw [e1, ih (i + step) (by omega) (by omega)]
    · simp only [hib, if_false]
      rw [pyRange_down_nil hs (by omega)]
      simp

/-! ### endpoint adjustment is Python's normalise-then-clamp -/

theorem adjust_eq_clamp (len e step : Int) (hlen : 0 ≤ len) :
    adjustEndpoint len e step =
      if step < 0 then clamp (-1) (len - 1) (norm len e) else clamp 0 len (norm len e) := by
  unfold adjustEndpoint clamp norm
  by_cases h0 : e < 0 <;> by_cases hs : step < 0 <;> simp only [h0, hs, if_true, if_false]
  all_goals (split <;> omega)

end JmesVerif
