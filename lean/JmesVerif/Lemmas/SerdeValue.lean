import JmesVerif.Model.SerdeValue
namespace JmesVerif

theorem str_lt_asymm {a b : String} (h : a < b) : ¬ b < a :=
  fun h' => String.lt_irrefl a (String.lt_trans h h')

theorem str_lt_ne {a b : String} (h : a < b) : b ≠ a := by
  intro e; subst e; exact String.lt_irrefl _ h

/-- inserting a key greater than every key present appends -/
theorem insertKV_append {β : Type} (k : String) (v : β) (acc : List (String × β))
    (h : ∀ p ∈ acc, p.1 < k) : insertKV k v acc = acc ++ [(k, v)] := by
  induction acc with
  | nil => rfl
  | cons p rest ih =>
    obtain ⟨k', v'⟩ := p
    have hk : k' < k := h (k', v') (by simp)
    simp only [insertKV, str_lt_asymm hk, if_false, str_lt_ne hk, List.cons_append]
    rw [ih (fun p hp => h p (by simp [hp]))]

theorem keysSorted_head_lt {β : Type} (k : String) (v : β) (r : List (String × β))
    (h : KeysSorted ((k, v) :: r)) : ∀ p ∈ r, k < p.1 := by
  induction r generalizing k v with
  | nil => intro p hp; cases hp
  | cons q rest ih =>
    obtain ⟨k', v'⟩ := q
    simp only [KeysSorted] at h
    intro p hp
    rcases List.mem_cons.mp hp with rfl | hp
    · exact h.1
    · exact String.lt_trans h.1 (ih k' v' h.2 p hp)

theorem keysSorted_tail {β : Type} (p : String × β) (r : List (String × β)) (h : KeysSorted (p :: r)) : KeysSorted r := by
  cases r with
  | nil => trivial
  | cons q rest => obtain ⟨k, v⟩ := p; obtain ⟨k', v'⟩ := q; exact h.2

mutual
theorem toJValue_toVal : ∀ v : Val, v.isJson = true → v.Sorted → v.toJValue.toVal = v
  | .null, _, _ => rfl
  | .bool _, _, _ => rfl
  | .num _, _, _ => rfl
  | .str _, _, _ => rfl
  | .arr xs, hj, hs => by
    simp only [Val.toJValue, JValue.toVal]
    rw [toJValues_toVals xs (by simpa [Val.isJson] using hj) hs]
  | .obj kvs, hj, hs => by
    simp only [Val.toJValue, JValue.toVal]
    have := toJKVs_toKVs kvs [] (by simpa [Val.isJson] using hj) hs.2 hs.1 (by intro p hp; cases hp)
    simpa using this
  | .expref _, hj, _ => by simp [Val.isJson] at hj
theorem toJValues_toVals : ∀ xs : List Val, valsJson xs = true → valsSorted xs →
    JValue.toVals (Val.toJValues xs) = xs
  | [], _, _ => rfl
  | x :: xs, hj, hs => by
    simp only [valsJson, Bool.and_eq_true] at hj
    simp only [Val.toJValues, JValue.toVals, toJValue_toVal x hj.1 hs.1, toJValues_toVals xs hj.2 hs.2]
theorem toJKVs_toKVs : ∀ (kvs acc : List (String × Val)), kvsJson kvs = true → kvsSorted kvs → KeysSorted kvs →
    (∀ p ∈ acc, ∀ q ∈ kvs, p.1 < q.1) →
    JValue.toKVs (Val.toJKVs kvs) acc = acc ++ kvs
  | [], acc, _, _, _, _ => by simp [Val.toJKVs, JValue.toKVs]
  | (k, x) :: r, acc, hj, hs, hk, hacc => by
    simp only [kvsJson, Bool.and_eq_true] at hj
    simp only [Val.toJKVs, JValue.toKVs, toJValue_toVal x hj.1 hs.1]
    rw [insertKV_append k x acc (fun p hp => hacc p hp (k, x) (by simp))]
    have hlt := keysSorted_head_lt k x r hk
    rw [toJKVs_toKVs r (acc ++ [(k, x)]) hj.2 hs.2 (keysSorted_tail _ _ hk)]
    · simp
    · intro p hp q hq
      rcases List.mem_append.mp hp with hp | hp
      · exact hacc p hp q (by simp [hq])
      · simp at hp; subst hp; exact hlt q hq
end

end JmesVerif
