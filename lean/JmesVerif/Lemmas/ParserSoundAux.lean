import JmesVerif.Lemmas.ParserBasic
/-! Non-inductive helper lemmas for T1 (parser soundness). -/
namespace JmesVerif
open Parser

/-- the parser stopped in front of a token binding no tighter than `k` -/
def Stop (k : Nat) (ts : List PT) : Prop := (peekT ts).lbp ≤ k

theorem lbp_le_INF (t : Tok) : t.lbp ≤ INF := by
  cases t <;> simp [Tok.lbp, INF]

theorem stop_INF (ts : List PT) : Stop INF ts := lbp_le_INF _

@[simp] theorem peekT_cons (p : Nat) (t : Tok) (r : List PT) : peekT ((p, t) :: r) = t := rfl
@[simp] theorem peekT_nil : peekT [] = .eof := rfl

/-! ### snoc lemmas -/

theorem ledsToks_append (a b : List Led) : ledsToks (a ++ b) = ledsToks a ++ ledsToks b := by
  induction a with
  | nil => simp [ledsToks]
  | cons x xs ih => simp [ledsToks, ih, List.append_assoc]

theorem ledsToks_snoc (a : List Led) (l : Led) : ledsToks (a ++ [l]) = ledsToks a ++ l.toks := by
  simp [ledsToks_append, ledsToks]

theorem chain_snoc (rbp f : Nat) (acc : List Led) (l : Led) :
    chain rbp f (acc ++ [l]) ↔
      (chain rbp f acc ∧ rbp < l.lbp ∧ l.lbp ≤ ledsFollow f acc ∧ l.Legal) := by
  induction acc generalizing f with
  | nil => simp [chain, ledsFollow]
  | cons a as ih => simp [chain, ledsFollow, ih, and_assoc]

theorem follow_snoc (f : Nat) (acc : List Led) (l : Led) :
    ledsFollow f (acc ++ [l]) = l.follow := by
  induction acc generalizing f with
  | nil => simp [ledsFollow]
  | cons a as ih => simp [ledsFollow, ih]

theorem ledsAst_snoc (x : Ast) (acc : List Led) (l : Led) :
    ledsAst x (acc ++ [l]) = l.ast (ledsAst x acc) := by
  induction acc generalizing x with
  | nil => simp [ledsAst]
  | cons a as ih => simp [ledsAst, ih]

theorem callDevOk_snoc (h : Nud) (acc : List Led) (l : Led)
    (hc : callDevOk h acc) (hl : l.isCallDev = false) : callDevOk h (acc ++ [l]) := by
  cases acc with
  | nil => simp [callDevOk, hl]
  | cons a as =>
    simp only [callDevOk, List.cons_append] at hc ⊢
    refine ⟨hc.1, ?_⟩
    intro l' hl'
    rcases List.mem_append.1 hl' with h1 | h1
    · exact hc.2 _ h1
    · simp at h1; subst h1; exact hl

/-! ### `Led.ast` never yields a bare field -/

theorem Led.ast_ne_field (x : Ast) (l : Led) (o : Nat) (s : String) : l.ast x ≠ .field o s := by
  cases l <;> simp [Led.ast]
  split <;> simp_all

theorem ledsAst_field (x : Ast) (acc : List Led) (o : Nat) (s : String)
    (h : ledsAst x acc = .field o s) : acc = [] ∧ x = .field o s := by
  rcases List.eq_nil_or_concat acc with rfl | ⟨init, l, rfl⟩
  · simpa [ledsAst] using h
  · rw [List.concat_eq_append, ledsAst_snoc] at h
    exact absurd h (Led.ast_ne_field _ _ _ _)

theorem Expr.isField_of_ast_aux (n : Nat) :
    ∀ e : Expr, sizeOf e < n → ∀ (o : Nat) (s : String), e.ast = .field o s → e.isField = true := by
  induction n with
  | zero => intro e h; omega
  | succ n ih =>
    intro e hn o s h
    cases e with
    | mk hd ls =>
      simp only [Expr.ast] at h
      obtain ⟨hls, h2⟩ := ledsAst_field _ _ _ _ h
      subst hls
      cases hd with
      | paren e' =>
        simp only [Nud.ast] at h2
        simp only [Expr.isField]
        refine ih e' ?_ o s h2
        simp at hn; omega
      | field _ => simp [Expr.isField]
      | qfield _ => simp [Expr.isField]
      | _ => simp [Nud.ast] at h2

theorem Expr.isField_of_ast (e : Expr) (o : Nat) (s : String) (h : e.ast = .field o s) :
    e.isField = true :=
  Expr.isField_of_ast_aux (sizeOf e + 1) e (Nat.lt_succ_self _) o s h

/-- what a head whose tree is a bare field looks like -/
theorem Nud.ast_field (h : Nud) (o : Nat) (s : String) (hh : h.ast = .field o s) :
    h = .field s ∨ h = .qfield s ∨ ∃ e, h = .paren e ∧ e.isField = true := by
  cases h <;> simp [Nud.ast] at hh
  · left; simp [hh]
  · right; left; simp [hh]
  · right; right; exact ⟨_, rfl, Expr.isField_of_ast _ _ _ hh⟩

/-! ### first tokens -/

def Nud.first : Nud → Tok
  | .at => .at
  | .field s => .identifier s
  | .qfield s => .quotedIdentifier s
  | .call s _ => .identifier s
  | .lit v => .literal v
  | .star _ => .star
  | .idx _ => .lbracket
  | .slice _ _ => .lbracket
  | .wildIdx _ => .lbracket
  | .mlist _ => .lbracket
  | .flatten _ => .flatten
  | .mhash _ => .lbrace
  | .not _ => .not
  | .filter _ _ => .filter
  | .paren _ => .lparen
  | .expref _ => .ampersand

theorem Nud.toks_first_s (n : Nud) : ∃ r, n.toks = n.first :: r := by
  cases n <;> simp [Nud.toks, Nud.first]

def Expr.first : Expr → Tok
  | .mk h _ => h.first

theorem Expr.toks_first_s (e : Expr) : ∃ r, e.toks = e.first :: r := by
  cases e with
  | mk h ls =>
    obtain ⟨r, hr⟩ := h.toks_first_s
    exact ⟨r ++ ledsToks ls, by simp [Expr.toks, Expr.first, hr]⟩

theorem Expr.first_of_yield (e : Expr) (ts ts' : List PT) (h : tk ts = e.toks ++ tk ts') :
    peekT ts = e.first := by
  obtain ⟨r, hr⟩ := e.toks_first_s
  rw [peekT_eq_peekL, h, hr]; rfl

theorem Expr.headIsBracket_of_first (e : Expr) (h : e.first = .lbracket ∨ e.first = .filter) :
    e.headIsBracket = true := by
  cases e with
  | mk hd ls => cases hd <;> simp_all [Expr.first, Nud.first, Expr.headIsBracket, Nud.isBracketHead]

theorem Expr.headIsDot_of_first (e : Expr)
    (h : (∃ s, e.first = .identifier s) ∨ (∃ s, e.first = .quotedIdentifier s) ∨ e.first = .star ∨
      e.first = .lbrace ∨ e.first = .ampersand) :
    e.headIsDot = true := by
  cases e with
  | mk hd ls => cases hd <;> simp_all [Expr.first, Nud.first, Expr.headIsDot, Nud.isDotHead]

theorem DotRhs.first_of_startsWithStar (d : DotRhs) (ts ts' : List PT)
    (h : tk ts = d.toks ++ tk ts') (hs : d.startsWithStar = true) : peekT ts = .star := by
  cases d with
  | mlist es => simp [DotRhs.startsWithStar] at hs
  | expr e =>
    cases e with
    | mk hd ls =>
      cases hd <;> simp [DotRhs.startsWithStar, Nud.isStar] at hs
      rw [peekT_eq_peekL, h]; simp [DotRhs.toks, Expr.toks, Nud.toks, peekL]

theorem Led.lbp_of_yield (l : Led) (ts ts' : List PT) (h : tk ts = l.toks ++ tk ts') :
    (peekT ts).lbp = l.lbp := by
  rw [peekT_eq_peekL, h]
  cases l <;> simp [Led.toks, Led.lbp, peekL, Tok.lbp]
  rename_i o e; cases o <;> simp [cmpTok]

/-! ### lists -/

def closeTok (paren : Bool) : Tok := if paren then .rparen else .rbracket

theorem isClosing_eq (paren : Bool) (t : Tok) (h : isClosing paren t = true) : t = closeTok paren := by
  cases t <;> cases paren <;> simp_all [isClosing, closeTok]

theorem argsTail_of_ne (es : List Expr) (h : es ≠ []) : argsTail es = .comma :: argsToks es := by
  cases es with
  | nil => exact absurd rfl h
  | cons e es => simp [argsTail, argsToks]

theorem kvsTail_of_ne (ks : List (Bool × String × Expr)) (h : ks ≠ []) :
    kvsTail ks = .comma :: kvsToks ks := by
  cases ks with
  | nil => exact absurd rfl h
  | cons e es => obtain ⟨q, s, e⟩ := e; simp [kvsTail, kvsToks]

theorem argsLegal_append (a b : List Expr) : argsLegal (a ++ b) ↔ argsLegal a ∧ argsLegal b := by
  induction a with
  | nil => simp [argsLegal]
  | cons x xs ih => simp [argsLegal, ih, and_assoc]

theorem stripList_append (a b : List Ast) : stripList (a ++ b) = stripList a ++ stripList b := by
  induction a with
  | nil => simp [stripList]
  | cons x xs ih => simp [stripList, ih]

theorem stripKVs_append (a b : List (String × Ast)) : stripKVs (a ++ b) = stripKVs a ++ stripKVs b := by
  induction a with
  | nil => simp [stripKVs]
  | cons x xs ih => obtain ⟨k, v⟩ := x; simp [stripKVs, ih]

/-! ### misc -/

theorem isStarOnly_eq (es : List Expr) (h : isStarOnly es = true) : es = [.mk (.star .none) []] := by
  unfold isStarOnly at h
  split at h
  · rfl
  · simp at h

theorem tk_cons_inv (r : List PT) (t : Tok) (rest : List Tok) (h : tk r = t :: rest) :
    ∃ p r', r = (p, t) :: r' ∧ tk r' = rest := by
  cases r with
  | nil => simp at h
  | cons x r' =>
    obtain ⟨p, t'⟩ := x
    simp at h
    exact ⟨p, r', by simp [h.1], h.2⟩

theorem peekT_inv (r : List PT) (t : Tok) (h : peekT r = t) (ht : t ≠ .eof) :
    ∃ p r', r = (p, t) :: r' := by
  cases r with
  | nil => simp at h; exact absurd h.symm ht
  | cons x r' =>
    obtain ⟨p, t'⟩ := x
    simp at h
    exact ⟨p, r', by simp [h]⟩

theorem cmpOfTok_eq (t : Tok) (c : Cmp) (h : cmpOfTok t = some c) : t = cmpTok c := by
  cases t <;> simp [cmpOfTok] at h <;> subst h <;> rfl

/-! ### `idxLoop` -/

def idxConsumed (a b c : Option Int) (k : Nat) : List Tok :=
  if k = 0 then optNumToks a
  else if k = 1 then optNumToks a ++ .colon :: optNumToks b
  else optNumToks a ++ .colon :: (optNumToks b ++ .colon :: optNumToks c)

def Parser.IdxHdr.toks : IdxHdr → List Tok
  | .idx n => [.number n]
  | .slice h => h.toks

def idxSlot (a b c : Option Int) (k : Nat) : Option Int :=
  if k = 0 then a else if k = 1 then b else c

theorem idxLoop_inv (fuel : Nat) : ∀ ts off a b c k x ts' off',
    idxLoop fuel ts off a b c k = .ok (x, ts', off') → k ≤ 2 →
    (k = 0 → b = none ∧ c = none) → (k = 1 → c = none) →
    (idxSlot a b c k ≠ none → ∀ v, peekT ts ≠ .number v) →
    idxConsumed a b c k ++ tk ts = x.toks ++ .rbracket :: tk ts' := by
  induction fuel with
  | zero => intro ts off a b c k x ts' off' h; simp [idxLoop] at h
  | succ n ih =>
    intro ts off a b c k x ts' off' h hk h0 h1 hs
    unfold idxLoop at h
    split at h
    · simp at h
    · rename_i p tok r
      split at h
      · -- number v
        rename_i v
        have hsl : idxSlot a b c k = none := by
          by_cases hh : idxSlot a b c k = none
          · exact hh
          · exact absurd rfl (hs hh v)
        have hpk : ∀ w, peekT r = .colon ∨ peekT r = .rbracket → peekT r ≠ .number w := by
          intro w hw; rcases hw with hw | hw <;> simp [hw]
        have hk3 : k = 0 ∨ k = 1 ∨ k = 2 := by omega
        split at h
        · rename_i hp
          rcases hk3 with rfl | rfl | rfl
          · simp at h; simp [idxSlot] at hsl; subst hsl
            have := ih _ _ _ _ _ _ _ _ _ h (by omega) (by simpa using h0) (by simp)
              (by intro _ w; exact hpk w (Or.inl hp))
            simpa [idxConsumed, optNumToks] using this
          · simp at h; simp [idxSlot] at hsl; subst hsl
            have := ih _ _ _ _ _ _ _ _ _ h (by omega) (by simp) (by simpa using h1)
              (by intro _ w; exact hpk w (Or.inl hp))
            simpa [idxConsumed, optNumToks] using this
          · simp at h; simp [idxSlot] at hsl; subst hsl
            have := ih _ _ _ _ _ _ _ _ _ h (by omega) (by simp) (by simp)
              (by intro _ w; exact hpk w (Or.inl hp))
            simpa [idxConsumed, optNumToks] using this
        · rename_i hp
          rcases hk3 with rfl | rfl | rfl
          · simp at h; simp [idxSlot] at hsl; subst hsl
            have := ih _ _ _ _ _ _ _ _ _ h (by omega) (by simpa using h0) (by simp)
              (by intro _ w; exact hpk w (Or.inr hp))
            simpa [idxConsumed, optNumToks] using this
          · simp at h; simp [idxSlot] at hsl; subst hsl
            have := ih _ _ _ _ _ _ _ _ _ h (by omega) (by simp) (by simpa using h1)
              (by intro _ w; exact hpk w (Or.inr hp))
            simpa [idxConsumed, optNumToks] using this
          · simp at h; simp [idxSlot] at hsl; subst hsl
            have := ih _ _ _ _ _ _ _ _ _ h (by omega) (by simp) (by simp)
              (by intro _ w; exact hpk w (Or.inr hp))
            simpa [idxConsumed, optNumToks] using this
        · simp at h
      · -- rbracket
        have hk3 : k = 0 ∨ k = 1 ∨ k = 2 := by omega
        rcases hk3 with rfl | rfl | rfl
        · simp at h
          split at h
          · cases h; simp [idxConsumed, optNumToks, IdxHdr.toks]
          · simp at h
        · simp at h; obtain ⟨rfl, rfl, rfl⟩ := h
          simp [idxConsumed, IdxHdr.toks, SliceHdr.toks]
        · simp at h; obtain ⟨rfl, rfl, rfl⟩ := h
          simp [idxConsumed, IdxHdr.toks, SliceHdr.toks]
      · -- colon
        split at h
        · simp at h
        · rename_i hk2
          have hk3 : k = 0 ∨ k = 1 := by omega
          have hstep : ∀ x ts' off', idxLoop n r p a b c (k + 1) = .ok (x, ts', off') →
              idxConsumed a b c k ++ .colon :: tk r = x.toks ++ .rbracket :: tk ts' := by
            intro x ts' off' h
            rcases hk3 with rfl | rfl
            · obtain ⟨rfl, rfl⟩ := h0 rfl
              have := ih _ _ _ _ _ _ _ _ _ h (by omega) (by simp) (by simp) (by simp [idxSlot])
              simpa [idxConsumed, optNumToks] using this
            · obtain rfl := h1 rfl
              have := ih _ _ _ _ _ _ _ _ _ h (by omega) (by simp) (by simp) (by simp [idxSlot])
              simpa [idxConsumed, optNumToks] using this
          split at h
          · simpa using hstep _ _ _ h
          · simpa using hstep _ _ _ h
          · simpa using hstep _ _ _ h
          · simp at h
      · simp at h

theorem idxLoop_sound (ts : List PT) (off : Nat) (x : IdxHdr) (ts' : List PT) (off' : Nat)
    (h : idxLoop 8 ts off none none none 0 = .ok (x, ts', off')) :
    tk ts = x.toks ++ .rbracket :: tk ts' := by
  have := idxLoop_inv 8 _ _ _ _ _ _ _ _ _ h (by omega) (by simp) (by simp) (by simp [idxSlot])
  simpa [idxConsumed, optNumToks] using this

end JmesVerif
