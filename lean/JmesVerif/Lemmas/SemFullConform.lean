import JmesVerif.Spec.SemFull
import JmesVerif.Model.Interp
import JmesVerif.Lemmas.SemFullBase
import JmesVerif.Lemmas.SemFullFn
import JmesVerif.Lemmas.SemFullJson
import JmesVerif.Lemmas.SemFullSafe
import JmesVerif.Lemmas.SemFullWidth
/-
Conformance of the interpreter to the FULL semantics `SemFull` (core forms + the 26 builtin
functions + expression references as arguments), by the same mutual induction over concrete syntax
as `Lemmas/SemConform.lean`, with the call case added.
-/
namespace JmesVerif
open Spec

/-- what a search outcome means: a value, a `JmespathError` (any kind, any offset), or something
the real code cannot return (a panic, the model's fuel exhaustion) -/
def resultOfF : ERes Val → Option (Option Val)
  | .ok (v, _) => some (some v)
  | .error e => if e.genuine then some none else none

section conv
set_option linter.unusedSectionVars false
variable (rt : Registry)

/-! ### statements of the induction, as propositions (needed to state the non-recursive
argument-list step `args_consF`) -/
def NudGoal (h : Nud) : Prop :=
  SemFull.nudOk h = true → ∀ d : Val, d.isJson = true → SafeF.nud d h →
    ∀ off : Nat, CIF rt d h.ast off (SemFull.nud d h)
def ExprGoal (e : Expr) : Prop :=
  SemFull.exprOk e = true → ∀ d : Val, d.isJson = true → SafeF.expr d e →
    ∀ off : Nat, CIF rt d e.ast off (SemFull.expr d e)
def FnGoal (h : Nud) : Prop := ∀ e, h = .expref e → ExprGoal rt e
def LedsGoal (ls : List Led) : Prop :=
  SemFull.ledsOk ls = true → ∀ (left : Ast) (d : Val) (sl : Option Val) (off : Nat),
    d.isJson = true → CIF rt d left off sl →
    (∀ lv, sl = some lv → lv.isJson = true ∧ SafeF.leds d lv ls) →
    CIF rt d (ledsAst left ls) off (sl.bind fun lv => SemFull.leds d lv ls)
def ArgsGoal (es : List Expr) : Prop :=
  ∀ (name : String) (i : Nat), SemFull.argsOk name i es = true → ∀ d : Val, d.isJson = true →
    SafeF.args d es → ∀ D : List Val, (∀ x ∈ D, x.isJson = true ∧ SafeF.fnArgs x es) →
    ∀ off : Nat, CArgsF rt (SemFull.exprefParam name) D i d (exprsAst es) off (SemFull.args d es)

theorem expr_ofF {h : Nud} {ls : List Led} (hn : NudGoal rt h) (hl : LedsGoal rt ls) :
    ExprGoal rt (.mk h ls) := by
  intro hc d hd hs off
  simp only [SemFull.exprOk, Bool.and_eq_true] at hc; simp only [SafeF.expr] at hs
  simp only [Expr.ast]
  refine (hl hc.2 h.ast d (SemFull.nud d h) off hd (hn hc.1 d hd hs.1 off)
    (fun lv hlv => ⟨nud_jsonF h hc.1 d hd lv hlv, hs.2 lv hlv⟩)).congr rt ?_
  simp only [SemFull.expr]
  cases SemFull.nud d h <;> rfl

theorem CArgsF.congr {ok : Nat → Bool} {D : List Val} {i : Nat} {d : Val} {es : List Ast} {off : Nat}
    {s s' : Option (List SemFull.Arg)} (h : CArgsF rt ok D i d es off s) (e : s = s') :
    CArgsF rt ok D i d es off s' := e ▸ h

theorem args_nilF : ArgsGoal rt [] := by
  intro name i _ d _ _ D _ off
  simp only [exprsAst, SemFull.args]
  exact cargs_nil rt _ D i d off

theorem args_consF (h : Nud) (ls : List Led) (rest : List Expr)
    (hn : NudGoal rt h) (hf : FnGoal rt h) (hl : LedsGoal rt ls) (hr : ArgsGoal rt rest) :
    ArgsGoal rt (.mk h ls :: rest) := by
  intro name i hok d hd hsafe D hD off
  by_cases hex : ∃ e, h = .expref e ∧ ls = []
  · obtain ⟨e, rfl, rfl⟩ := hex
    simp only [SemFull.argsOk, Bool.and_eq_true] at hok
    simp only [SafeF.args] at hsafe
    simp only [SafeF.fnArgs] at hD
    simp only [SemFull.args, exprsAst, Expr.ast, ledsAst, Nud.ast]
    exact cargs_cons_fn rt hok.1.1
      (fun x hx o => hf e rfl hok.1.2 x (hD x hx).1 (hD x hx).2.1 o)
      (hr name (i + 1) hok.2 d hd hsafe D (fun x hx => ⟨(hD x hx).1, (hD x hx).2.2⟩) off)
  · have hne : ∀ e', Expr.mk h ls = .mk (.expref e') [] → False := by
      intro e' he
      injection he with h1 h2
      exact hex ⟨e', h1, h2⟩
    rw [SemFull.argsOk.eq_3 _ _ _ _ hne, Bool.and_eq_true] at hok
    rw [SafeF.args.eq_3 _ _ _ hne] at hsafe
    simp only [SafeF.fnArgs.eq_3 _ _ _ hne] at hD
    rw [SemFull.args.eq_3 _ _ _ hne]
    simp only [exprsAst]
    refine (cargs_cons_val rt (expr_ofF rt hn hl hok.1 d hd hsafe.1 off)
      (fun v hv => expr_jsonF _ hok.1 d hd v hv)
      (fun _ _ => hr name (i + 1) hok.2 d hd hsafe.2 D hD off)).congr rt ?_
    cases SemFull.expr d (.mk h ls) <;> rfl

/-- the elements an `&e` argument is applied to are JSON -/
theorem fnDomain_json {s : Option (List SemFull.Arg)} (h : ∀ as, s = some as → ArgsJson as) :
    ∀ x ∈ fnDomain s, x.isJson = true := by
  intro x hx
  unfold fnDomain at hx
  split at hx
  · rename_i f xs
    have := h _ rfl (.val (.arr xs)) (by simp)
    simp only at this
    exact arr_json.mp this x hx
  · rename_i xs f
    have := h _ rfl (.val (.arr xs)) (by simp)
    simp only at this
    exact arr_json.mp this x hx
  · simp at hx

variable (hrt : ∀ n, rt.get n = (SemFull.builtinOf n).map Fn.builtin)
include hrt

mutual
theorem nud_convF : ∀ h : Nud, SemFull.nudOk h = true → ∀ d : Val, d.isJson = true →
    SafeF.nud d h → ∀ off : Nat, CIF rt d h.ast off (SemFull.nud d h)
  | .at, _, d, _, _, off => cif_identity rt d 0 off
  | .field s, _, d, _, _, off => cif_field rt d 0 off s
  | .qfield s, _, d, _, _, off => cif_field rt d 0 off s
  | .call name as, hc, d, hd, hs, off => by
    simp only [SemFull.nudOk] at hc; simp only [SafeF.nud] at hs
    simp only [Nud.ast, SemFull.nud]
    exact cif_function rt hrt (args_convF as name 0 hc d hd hs.1 (fnDomain (SemFull.args d as))
      (fun x hx => ⟨fnDomain_json (fun as' h' => args_jsonF as name 0 hc d hd as' h') x hx, hs.2 x hx⟩) off)
  | .lit v, _, d, _, _, off => cif_literal rt d v 0 off
  | .idx n, _, d, _, _, off => cif_index rt d 0 off n
  | .expref _, hc, _, _, _, off => by simp [SemFull.nudOk] at hc
  | .paren e, hc, d, hd, hs, off => by
    simp only [SemFull.nudOk] at hc; simp only [SafeF.nud] at hs
    simpa only [Nud.ast, SemFull.nud] using expr_convF e hc d hd hs off
  | .not e, hc, d, hd, hs, off => by
    simp only [SemFull.nudOk] at hc; simp only [SafeF.nud] at hs
    simp only [Nud.ast, SemFull.nud]
    refine (cif_not rt (expr_convF e hc d hd hs off)).congr rt ?_
    cases h : SemFull.expr d e with
    | none => rfl
    | some v => simp [truthy_eq v (expr_jsonF e hc d hd v h)]
  | .mlist es, hc, d, hd, hs, off => by
    simp only [SemFull.nudOk] at hc; simp only [SafeF.nud] at hs
    simp only [Nud.ast, SemFull.nud]
    exact cif_multiList rt (fun hn => exprs_convF es hc d hd (hs hn) off)
  | .mhash kvs, hc, d, hd, hs, off => by
    simp only [SemFull.nudOk] at hc; simp only [SafeF.nud] at hs
    simp only [Nud.ast, SemFull.nud]
    exact cif_multiHash rt (fun hn => kvs_convF kvs hc d hd (hs hn) [] off)
  | .wildIdx r, hc, d, hd, hs, off => by
    simp only [SemFull.nudOk] at hc; simp only [SafeF.nud] at hs
    simp only [Nud.ast, SemFull.nud]
    refine (cif_proj rt (f := fun x => SemFull.rhs x r) (cif_identity rt d 0 off) ?_).congr rt ?_
    · intro xs hxs x hx
      simp only [Option.some.injEq] at hxs
      exact rhs_convF r hc x (arr_json.mp (hxs ▸ hd) x hx) (hs xs hxs x hx) off
    · cases d <;> rfl
  | .star r, hc, d, hd, hs, off => by
    simp only [SemFull.nudOk] at hc; simp only [SafeF.nud] at hs
    simp only [Nud.ast, SemFull.nud]
    refine (cif_proj rt (f := fun x => SemFull.rhs x r)
      (cif_objectValues rt (cif_identity rt d 0 off)) ?_).congr rt ?_
    · intro xs hxs x hx
      cases d with
      | obj m =>
        simp only [Option.map_some, Option.some.injEq, Val.arr.injEq] at hxs
        subst hxs
        exact rhs_convF r hc x (values_json hd x hx) (hs m rfl x hx) off
      | _ => simp at hxs
    · cases d <;> rfl
  | .flatten r, hc, d, hd, hs, off => by
    simp only [SemFull.nudOk] at hc; simp only [SafeF.nud] at hs
    simp only [Nud.ast, SemFull.nud]
    refine (cif_proj rt (f := fun x => SemFull.rhs x r)
      (cif_flatten rt (cif_identity rt d 0 off)) ?_).congr rt ?_
    · intro xs hxs x hx
      cases d with
      | arr ys =>
        simp only [Option.map_some, Option.some.injEq, Val.arr.injEq] at hxs
        subst hxs
        exact rhs_convF r hc x (flatten1_json hd x hx) (hs ys rfl x hx) off
      | _ => simp at hxs
    · cases d <;> rfl
  | .slice h r, hc, d, hd, hs, off => by
    simp only [SemFull.nudOk] at hc; simp only [SafeF.nud] at hs
    simp only [Nud.ast, SemFull.nud]
    refine (cif_proj rt (f := fun x => SemFull.rhs x r)
      (cif_slice rt (fun h0 xs hxs => (hs h0 xs hxs).1)) ?_).congr rt ?_
    · intro xs hxs x hx
      by_cases h0 : h.step = 0
      · simp [h0] at hxs
      · cases d with
        | arr ys =>
          simp only [h0, if_false, Option.some.injEq, Val.arr.injEq] at hxs
          subst hxs
          exact rhs_convF r hc x (pySlice_json hd x hx) ((hs h0 ys rfl).2 x hx) off
        | _ => simp [h0] at hxs
    · by_cases h0 : h.step = 0
      · simp [h0]
      · cases d <;> simp [h0]
  | .filter p r, hc, d, hd, hs, off => by
    simp only [SemFull.nudOk, Bool.and_eq_true] at hc; simp only [SafeF.nud] at hs
    simp only [Nud.ast, SemFull.nud]
    refine (cif_proj rt (f := fun x => match SemFull.expr x p with
      | none => none
      | some c => if Sem.truthy c then SemFull.rhs x r else some .null) (cif_identity rt d 0 off) ?_).congr rt ?_
    rotate_left
    · cases d <;> rfl
    · intro xs hxs x hx
      simp only [Option.some.injEq] at hxs
      have hxj := arr_json.mp (hxs ▸ hd) x hx
      have hsx := hs xs hxs x hx
      refine cif_cond_of rt (expr_convF p hc.1 x hxj hsx.1 off)
        (st := SemFull.rhs x r) (fun c hcv ht => rhs_convF r hc.2 x hxj (hsx.2 c hcv ?_) off) ?_
      · rw [← truthy_eq c (expr_jsonF p hc.1 x hxj c hcv)]; exact ht
      · cases hcv : SemFull.expr x p with
        | none => rfl
        | some c => simp [truthy_eq c (expr_jsonF p hc.1 x hxj c hcv)]
theorem led_convF : ∀ l : Led, SemFull.ledOk l = true → ∀ (left : Ast) (d : Val) (sl : Option Val) (off : Nat),
    d.isJson = true → CIF rt d left off sl →
    (∀ lv, sl = some lv → lv.isJson = true ∧ SafeF.led d lv l) →
    CIF rt d (l.ast left) off (sl.bind fun lv => SemFull.led d lv l)
  | .callDev _, hc, _, _, _, off, _, _, _ => by simp [SemFull.ledOk] at hc
  | .dot dr, hc, left, d, sl, off, hd, hl, hs => by
    simp only [SemFull.ledOk] at hc
    simp only [Led.ast, SemFull.led]
    exact cif_subexpr rt hl (fun lv hlv => dot_convF dr hc lv (hs lv hlv).1 (by simpa [SafeF.led] using (hs lv hlv).2) off)
  | .index n, _, left, d, sl, off, hd, hl, hs => by
    simp only [Led.ast, SemFull.led]
    exact cif_subexpr rt hl (fun lv _ => cif_index rt lv 0 off n)
  | .pipe e, hc, left, d, sl, off, hd, hl, hs => by
    simp only [SemFull.ledOk] at hc
    simp only [Led.ast, SemFull.led]
    exact cif_subexpr rt hl (fun lv hlv => expr_convF e hc lv (hs lv hlv).1 (by simpa [SafeF.led] using (hs lv hlv).2) off)
  | .or e, hc, left, d, sl, off, hd, hl, hs => by
    simp only [SemFull.ledOk] at hc
    simp only [Led.ast, SemFull.led]
    refine (cif_or rt (sr := SemFull.expr d e) hl (fun lv hlv ht => expr_convF e hc d hd ?_ off)).congr rt ?_
    · have := (hs lv hlv).2
      simp only [SafeF.led] at this
      exact this (by rw [← truthy_eq lv (hs lv hlv).1]; exact ht)
    · cases sl with
      | none => rfl
      | some lv => simp [truthy_eq lv (hs lv rfl).1]
  | .and e, hc, left, d, sl, off, hd, hl, hs => by
    simp only [SemFull.ledOk] at hc
    simp only [Led.ast, SemFull.led]
    refine (cif_and rt (sr := SemFull.expr d e) hl (fun lv hlv ht => expr_convF e hc d hd ?_ off)).congr rt ?_
    · have := (hs lv hlv).2
      simp only [SafeF.led] at this
      exact this (by rw [← truthy_eq lv (hs lv hlv).1]; exact ht)
    · cases sl with
      | none => rfl
      | some lv => simp [truthy_eq lv (hs lv rfl).1]
  | .cmp o e, hc, left, d, sl, off, hd, hl, hs => by
    simp only [SemFull.ledOk] at hc
    simp only [Led.ast, SemFull.led]
    exact cif_comparison rt hl (fun lv hlv => expr_convF e hc d hd (by simpa [SafeF.led] using (hs lv hlv).2) off)
  | .wildIdxL r, hc, left, d, sl, off, hd, hl, hs => by
    simp only [SemFull.ledOk] at hc
    simp only [Led.ast, SemFull.led]
    refine cif_proj rt (f := fun x => SemFull.rhs x r) hl ?_
    intro xs hxs x hx
    have := (hs _ hxs).2
    simp only [SafeF.led] at this
    exact rhs_convF r hc x (arr_json.mp (hs _ hxs).1 x hx) (this xs rfl x hx) off
  | .dotStar r, hc, left, d, sl, off, hd, hl, hs => by
    simp only [SemFull.ledOk] at hc
    simp only [Led.ast, SemFull.led]
    refine (cif_proj rt (f := fun x => SemFull.rhs x r) (cif_objectValues rt hl) ?_).congr rt ?_
    · intro xs hxs x hx
      cases sl with
      | none => simp at hxs
      | some lv =>
        cases lv with
        | obj m =>
          simp only [Option.map_some, Option.some.injEq, Val.arr.injEq] at hxs
          subst hxs
          have := (hs _ rfl).2
          simp only [SafeF.led] at this
          exact rhs_convF r hc x (values_json (hs _ rfl).1 x hx) (this m rfl x hx) off
        | _ => simp at hxs
    · cases sl with
      | none => rfl
      | some lv => cases lv <;> rfl
  | .flattenL r, hc, left, d, sl, off, hd, hl, hs => by
    simp only [SemFull.ledOk] at hc
    simp only [Led.ast, SemFull.led]
    refine (cif_proj rt (f := fun x => SemFull.rhs x r) (cif_flatten rt hl) ?_).congr rt ?_
    · intro xs hxs x hx
      cases sl with
      | none => simp at hxs
      | some lv =>
        cases lv with
        | arr ys =>
          simp only [Option.map_some, Option.some.injEq, Val.arr.injEq] at hxs
          subst hxs
          have := (hs _ rfl).2
          simp only [SafeF.led] at this
          exact rhs_convF r hc x (flatten1_json (hs _ rfl).1 x hx) (this ys rfl x hx) off
        | _ => simp at hxs
    · cases sl with
      | none => rfl
      | some lv => cases lv <;> rfl
  | .sliceL h r, hc, left, d, sl, off, hd, hl, hs => by
    simp only [SemFull.ledOk] at hc
    simp only [Led.ast, SemFull.led]
    refine cif_subexpr rt hl (fun lv hlv => ?_)
    have hsafe := (hs lv hlv).2
    have hlj := (hs lv hlv).1
    simp only [SafeF.led] at hsafe
    refine (cif_proj rt (f := fun x => SemFull.rhs x r)
      (cif_slice rt (fun h0 xs hxs => (hsafe h0 xs hxs).1)) ?_).congr rt ?_
    · intro xs hxs x hx
      by_cases h0 : h.step = 0
      · simp [h0] at hxs
      · cases lv with
        | arr ys =>
          simp only [h0, if_false, Option.some.injEq, Val.arr.injEq] at hxs
          subst hxs
          exact rhs_convF r hc x (pySlice_json hlj x hx) ((hsafe h0 ys rfl).2 x hx) off
        | _ => simp [h0] at hxs
    · by_cases h0 : h.step = 0
      · simp [h0]
      · cases lv <;> simp [h0]
  | .filterL p r, hc, left, d, sl, off, hd, hl, hs => by
    simp only [SemFull.ledOk, Bool.and_eq_true] at hc
    simp only [Led.ast, SemFull.led]
    refine (cif_proj rt (f := fun x => match SemFull.expr x p with
      | none => none
      | some c => if Sem.truthy c then SemFull.rhs x r else some .null) hl ?_).congr rt ?_
    rotate_left
    · cases sl with
      | none => rfl
      | some lv => cases lv <;> rfl
    · intro xs hxs x hx
      have hxj := arr_json.mp (hs _ hxs).1 x hx
      have hsafe := (hs _ hxs).2
      simp only [SafeF.led] at hsafe
      have hsx := hsafe xs rfl x hx
      refine cif_cond_of rt (expr_convF p hc.1 x hxj hsx.1 off)
        (st := SemFull.rhs x r) (fun c hcv ht => rhs_convF r hc.2 x hxj (hsx.2 c hcv ?_) off) ?_
      · rw [← truthy_eq c (expr_jsonF p hc.1 x hxj c hcv)]; exact ht
      · cases hcv : SemFull.expr x p with
        | none => rfl
        | some c => simp [truthy_eq c (expr_jsonF p hc.1 x hxj c hcv)]
theorem rhs_convF : ∀ r : Rhs, SemFull.rhsOk r = true → ∀ el : Val, el.isJson = true →
    SafeF.rhs el r → ∀ off : Nat, CIF rt el r.ast off (SemFull.rhs el r)
  | .none, _, el, _, _, off => cif_identity rt el 0 off
  | .dot dr, hc, el, hel, hs, off => by
    simp only [SemFull.rhsOk] at hc; simp only [SafeF.rhs] at hs
    simpa only [Rhs.ast, SemFull.rhs] using dot_convF dr hc el hel hs off
  | .bracket e, hc, el, hel, hs, off => by
    simp only [SemFull.rhsOk] at hc; simp only [SafeF.rhs] at hs
    simpa only [Rhs.ast, SemFull.rhs] using expr_convF e hc el hel hs off
theorem dot_convF : ∀ dr : DotRhs, SemFull.dotOk dr = true → ∀ el : Val, el.isJson = true →
    SafeF.dot el dr → ∀ off : Nat, CIF rt el dr.ast off (SemFull.dot el dr)
  | .mlist es, hc, el, hel, hs, off => by
    simp only [SemFull.dotOk] at hc; simp only [SafeF.dot] at hs
    simp only [DotRhs.ast, SemFull.dot]
    exact cif_multiList rt (fun hn => exprs_convF es hc el hel (hs hn) off)
  | .expr e, hc, el, hel, hs, off => by
    simp only [SemFull.dotOk] at hc; simp only [SafeF.dot] at hs
    simpa only [DotRhs.ast, SemFull.dot] using expr_convF e hc el hel hs off
theorem expr_convF : ∀ e : Expr, ExprGoal rt e
  | .mk h ls => expr_ofF rt (nud_convF h) (leds_convF ls)
theorem leds_convF : ∀ ls : List Led, SemFull.ledsOk ls = true → ∀ (left : Ast) (d : Val)
    (sl : Option Val) (off : Nat), d.isJson = true → CIF rt d left off sl →
    (∀ lv, sl = some lv → lv.isJson = true ∧ SafeF.leds d lv ls) →
    CIF rt d (ledsAst left ls) off (sl.bind fun lv => SemFull.leds d lv ls)
  | [], _, left, d, sl, off, hd, hl, _ => by
    simp only [ledsAst]
    refine hl.congr rt ?_
    cases sl <;> simp [SemFull.leds]
  | l :: ls, hc, left, d, sl, off, hd, hl, hs => by
    simp only [SemFull.ledsOk, Bool.and_eq_true] at hc
    simp only [ledsAst]
    have h1 := led_convF l hc.1 left d sl off hd hl (fun lv hlv => ⟨(hs lv hlv).1, (hs lv hlv).2.1⟩)
    refine (leds_convF ls hc.2 (l.ast left) d _ off hd h1 ?_).congr rt ?_
    · intro v hv
      cases sl with
      | none => simp at hv
      | some lv =>
        simp only [Option.bind_some] at hv
        exact ⟨led_jsonF l hc.1 d lv hd (hs lv rfl).1 v hv, (hs lv rfl).2.2 v hv⟩
    · cases sl with
      | none => rfl
      | some lv => simp only [Option.bind_some, SemFull.leds]; cases SemFull.led d lv l <;> rfl
theorem exprs_convF : ∀ es : List Expr, SemFull.exprsOk es = true → ∀ d : Val, d.isJson = true →
    SafeF.exprs d es → ∀ off : Nat, CAF rt d (exprsAst es) off (SemFull.exprs d es)
  | [], _, d, _, _, off => caf_nil rt d off
  | e :: es, hc, d, hd, hs, off => by
    simp only [SemFull.exprsOk, Bool.and_eq_true] at hc; simp only [SafeF.exprs] at hs
    simp only [exprsAst]
    refine (caf_cons rt (expr_convF e hc.1 d hd hs.1 off) (fun _ _ => exprs_convF es hc.2 d hd hs.2 off)).congr rt ?_
    simp only [SemFull.exprs]
    cases SemFull.expr d e <;> rfl
theorem kvs_convF : ∀ kvs : List (Bool × String × Expr), SemFull.kvsOk kvs = true → ∀ d : Val,
    d.isJson = true → SafeF.kvs d kvs → ∀ (acc : List (String × Val)) (off : Nat),
    CKF rt d (kvsAst kvs) acc off (SemFull.kvs' d kvs acc)
  | [], _, d, _, _, acc, off => ckf_nil rt d acc off
  | (_, k, e) :: r, hc, d, hd, hs, acc, off => by
    simp only [SemFull.kvsOk, Bool.and_eq_true] at hc; simp only [SafeF.kvs] at hs
    simp only [kvsAst]
    refine (ckf_cons rt (g := fun v => SemFull.kvs' d r (insertKV k v acc)) (expr_convF e hc.1 d hd hs.1 off)
      (fun v _ => kvs_convF r hc.2 d hd hs.2 _ off)).congr rt ?_
    simp only [SemFull.kvs']
    cases SemFull.expr d e <;> rfl
/-- the body of an `&e` argument converges to the closure, on every JSON element, at every offset -/
theorem nud_fnF : ∀ h : Nud, FnGoal rt h
  | .expref e => fun e' he => by cases he; exact expr_convF e
  | .at => fun _ he => nomatch he
  | .field _ => fun _ he => nomatch he
  | .qfield _ => fun _ he => nomatch he
  | .call _ _ => fun _ he => nomatch he
  | .lit _ => fun _ he => nomatch he
  | .star _ => fun _ he => nomatch he
  | .idx _ => fun _ he => nomatch he
  | .slice _ _ => fun _ he => nomatch he
  | .wildIdx _ => fun _ he => nomatch he
  | .mlist _ => fun _ he => nomatch he
  | .flatten _ => fun _ he => nomatch he
  | .mhash _ => fun _ he => nomatch he
  | .not _ => fun _ he => nomatch he
  | .filter _ _ => fun _ he => nomatch he
  | .paren _ => fun _ he => nomatch he
theorem args_convF : ∀ es : List Expr, ArgsGoal rt es
  | [] => args_nilF rt
  | .mk h ls :: rest => args_consF rt h ls rest (nud_convF h) (nud_fnF h) (leds_convF ls) (args_convF rest)
end

end conv

/-! ### `strip` is idempotent -/
mutual
theorem Ast.strip_strip : ∀ a : Ast, a.strip.strip = a.strip
  | .comparison _ _ l r => by simp [Ast.strip, Ast.strip_strip l, Ast.strip_strip r]
  | .condition _ p t => by simp [Ast.strip, Ast.strip_strip p, Ast.strip_strip t]
  | .identity _ => rfl
  | .expref _ a => by simp [Ast.strip, Ast.strip_strip a]
  | .flatten _ a => by simp [Ast.strip, Ast.strip_strip a]
  | .function _ _ args => by simp [Ast.strip, stripList_stripList args]
  | .field _ _ => rfl
  | .index _ _ => rfl
  | .literal _ _ => rfl
  | .multiList _ es => by simp [Ast.strip, stripList_stripList es]
  | .multiHash _ kvs => by simp [Ast.strip, stripKVs_stripKVs kvs]
  | .not _ a => by simp [Ast.strip, Ast.strip_strip a]
  | .projection _ l r => by simp [Ast.strip, Ast.strip_strip l, Ast.strip_strip r]
  | .objectValues _ a => by simp [Ast.strip, Ast.strip_strip a]
  | .and _ l r => by simp [Ast.strip, Ast.strip_strip l, Ast.strip_strip r]
  | .or _ l r => by simp [Ast.strip, Ast.strip_strip l, Ast.strip_strip r]
  | .slice _ _ _ _ => rfl
  | .subexpr _ l r => by simp [Ast.strip, Ast.strip_strip l, Ast.strip_strip r]
theorem stripList_stripList : ∀ es : List Ast, stripList (stripList es) = stripList es
  | [] => rfl
  | a :: rest => by simp [stripList, Ast.strip_strip a, stripList_stripList rest]
theorem stripKVs_stripKVs : ∀ kvs : List (String × Ast), stripKVs (stripKVs kvs) = stripKVs kvs
  | [] => rfl
  | (k, a) :: rest => by simp [stripKVs, Ast.strip_strip a, stripKVs_stripKVs rest]
end

theorem resultOfF_of_agrees {r : ERes Val} {s : Option Val} {off : Nat} (h : AgreesF r s off) :
    resultOfF r = some s := by
  cases s with
  | none => obtain ⟨e, rfl, hg⟩ := h; simp [resultOfF, hg]
  | some v => simp only [AgreesF] at h; subst h; rfl

/-- **Conformance to the full semantics, exact side condition, any registry that binds exactly the
26 builtin names.**  For every covered expression `e`, every tree equal to `e`'s tree up to
offsets, every JSON document and initial offset: if every array a slice is applied to while
evaluating `e` on `d` (including inside the functions applied by `map` / `sort_by` / `max_by` /
`min_by`) has at most `i32::MAX` elements (`SafeF`), then with enough fuel the interpreter returns
the value the semantics assigns, or a `JmespathError` exactly when the semantics says "error" —
never a panic, never a different value. -/
theorem C01_conformance_full_rt (rt : Registry)
    (hrt : ∀ n, rt.get n = (SemFull.builtinOf n).map Fn.builtin)
    (e : Expr) (hc : SemFull.exprOk e = true) (a : Ast) (ha : a.strip = e.ast) (d : Val)
    (hd : d.isJson = true) (hs : SafeF.expr d e) (off : Nat) :
    ∃ n, ∀ fuel, n ≤ fuel → resultOfF (interp rt fuel d a off) = some (SemFull.expr d e) := by
  have ha' : a.strip = e.ast.strip := by rw [← ha, Ast.strip_strip]
  obtain ⟨n, hn⟩ := expr_convF rt hrt e hc d hd hs off a ha'
  exact ⟨n, fun fuel hf => resultOfF_of_agrees (hn fuel hf)⟩

/-- the same for the default runtime (`DEFAULT_RUNTIME`) -/
theorem C01_conformance_full_safe (e : Expr) (hc : SemFull.exprOk e = true) (a : Ast)
    (ha : a.strip = e.ast) (d : Val) (hd : d.isJson = true) (hs : SafeF.expr d e) (off : Nat) :
    ∃ n, ∀ fuel, n ≤ fuel →
      resultOfF (interp Registry.default fuel d a off) = some (SemFull.expr d e) :=
  C01_conformance_full_rt Registry.default default_get e hc a ha d hd hs off

/-- **general width form**: `b` bounds the member count of every array and object in the
document; `e.wbF b` then bounds every array that can arise during evaluation, function results
included -/
theorem C01_conformance_full_within (e : Expr) (hc : SemFull.exprOk e = true) (a : Ast)
    (ha : a.strip = e.ast) (d : Val) (hd : d.isJson = true) (b : Nat) (hw : d.Within b)
    (hb : e.wbF b ≤ 2147483647) (off : Nat) :
    ∃ n, ∀ fuel, n ≤ fuel →
      resultOfF (interp Registry.default fuel d a off) = some (SemFull.expr d e) :=
  C01_conformance_full_safe e hc a ha d hd (exprF_w e b d hw hb).1 off

/-- **C01 conformance, full language.**  For every covered expression `e` (`SemFull.exprOk`: core
forms, calls, `&e` only as a direct argument in an expref-typed parameter position), every tree `a`
equal to `e`'s tree up to offsets, every JSON document `d` and initial `ctx.offset`: provided the
computable width bound `e.wbF d.width` does not exceed `i32::MAX`, the interpreter with the default
runtime, given enough fuel, returns exactly the value `SemFull` assigns — or a `JmespathError`
exactly when `SemFull` says the expression is an error — and never panics. -/
theorem C01_conformance_full (e : Expr) (hc : SemFull.exprOk e = true) (a : Ast)
    (ha : a.strip = e.ast) (d : Val) (hd : d.isJson = true)
    (hb : e.wbF d.width ≤ 2147483647) (off : Nat) :
    ∃ n, ∀ fuel, n ≤ fuel →
      resultOfF (interp Registry.default fuel d a off) = some (SemFull.expr d e) :=
  C01_conformance_full_within e hc a ha d hd d.width d.within_width hb off

end JmesVerif

#print axioms JmesVerif.C01_conformance_full_rt
#print axioms JmesVerif.C01_conformance_full
