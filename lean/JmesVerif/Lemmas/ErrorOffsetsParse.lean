import JmesVerif.Lemmas.ErrorOffsetsLit
import JmesVerif.Lemmas.ParserSound
/-!
# The parser only builds trees whose literals are JSON values

`JsonText.parse` (the model of `Variable::from_json`) returns JSON values, so every literal token
of the lexer holds one; the tree built by the parser has exactly the literals of its token list
(through `T1_parseTokens`: `a.strip = e.ast`, `tk ts = e.toks …`).
-/
namespace JmesVerif
open Parser

namespace JsonText

theorem numVal_json (n : PNum) : (numVal n).isJson = true := by cases n <;> simp [numVal]

theorem parse_json_all : ∀ fuel : Nat,
    (∀ depth cs v r, parseValue fuel depth cs = some (v, r) → v.isJson = true) ∧
    (∀ depth cs acc xs r, parseElems fuel depth cs acc = some (xs, r) → (∀ a ∈ acc, a.isJson = true) →
      ∀ x ∈ xs, x.isJson = true) ∧
    (∀ depth cs acc kvs r, parseMembers fuel depth cs acc = some (kvs, r) → (∀ p ∈ acc, p.2.isJson = true) →
      ∀ p ∈ kvs, p.2.isJson = true) := by
  intro fuel
  induction fuel with
  | zero => simp [parseValue, parseElems, parseMembers]
  | succ n ih =>
    obtain ⟨ihV, ihE, ihM⟩ := ih
    refine ⟨?_, ?_, ?_⟩
    · intro depth cs v r h
      rw [parseValue] at h
      split at h
      all_goals (try (simp only [Option.map_eq_some_iff] at h; obtain ⟨x, _, hx⟩ := h;
                      simp only [Prod.mk.injEq] at hx; obtain ⟨rfl, _⟩ := hx;
                      first | simp | exact numVal_json _))
      · split at h
        · simp at h
        · split at h
          · simp at h; rw [← h.1]; simp
          · simp only [Option.map_eq_some_iff] at h
            obtain ⟨⟨xs, r'⟩, hx, heq⟩ := h
            simp only [Prod.mk.injEq] at heq; obtain ⟨rfl, _⟩ := heq
            rw [isJson_arr]
            exact ihE _ _ _ _ _ hx (by simp)
      · split at h
        · simp at h
        · split at h
          · simp at h; rw [← h.1]; simp
          · simp only [Option.map_eq_some_iff] at h
            obtain ⟨⟨xs, r'⟩, hx, heq⟩ := h
            simp only [Prod.mk.injEq] at heq; obtain ⟨rfl, _⟩ := heq
            rw [isJson_obj]
            exact ihM _ _ _ _ _ hx (by simp)
      · split at h
        · simp only [Option.map_eq_some_iff] at h
          obtain ⟨x, _, hx⟩ := h
          simp only [Prod.mk.injEq] at hx; obtain ⟨rfl, _⟩ := hx
          exact numVal_json _
        · simp at h
      · simp at h
    · intro depth cs acc xs r h hacc
      rw [parseElems] at h
      split at h
      · simp at h
      · rename_i v r' hv
        have hvj := ihV _ _ _ _ hv
        have hacc' : ∀ a ∈ v :: acc, a.isJson = true := by
          intro a ha; rcases List.mem_cons.1 ha with rfl | ha
          · exact hvj
          · exact hacc a ha
        split at h
        · exact ihE _ _ _ _ _ h hacc'
        · simp only [Option.some.injEq, Prod.mk.injEq] at h
          obtain ⟨rfl, _⟩ := h
          intro x hx
          exact hacc' x (by simp at hx ⊢; exact hx.symm)
        · simp at h
    · intro depth cs acc kvs r h hacc
      rw [parseMembers] at h
      split at h
      · split at h
        · simp at h
        · split at h
          · split at h
            · simp at h
            · rename_i v r' hv
              have hvj := ihV _ _ _ _ hv
              have hacc' := fun k => insertKV_json_ij k v acc hvj hacc
              simp only at h
              split at h
              · exact ihM _ _ _ _ _ h (hacc' _)
              · simp only [Option.some.injEq, Prod.mk.injEq] at h
                obtain ⟨rfl, _⟩ := h
                exact hacc' _
              · simp at h
          · simp at h
      · simp at h

theorem parse_json (cs : List Char) (v : Val) (h : parse cs = some v) : v.isJson = true := by
  unfold parse at h
  split at h
  · rename_i v' rest hv
    split at h
    · simp at h; subst h; exact (parse_json_all _).1 _ _ _ _ hv
    · simp at h
  · simp at h

end JsonText

/-- a literal token holds a JSON value -/
def Tok.litJson : Tok → Bool
  | .literal v => v.isJson
  | _ => true

theorem lexOne_litJson (pos : Nat) (c : Char) (cs : List Char) (t : Tok) (r : List Char)
    (h : Lexer.lexOne pos c cs = .ok (some t, r)) : t.litJson = true := by
  have pj := JsonText.parse_json
  unfold Lexer.lexOne at h
  repeat' (replace h := ok_ite h; obtain ⟨_, h⟩ | ⟨_, h⟩ := h)
  all_goals repeat' (first | (replace h := ok_ite h; obtain ⟨_, h⟩ | ⟨_, h⟩ := h) | split at h)
  all_goals first
    | (simp at h; done)
    | (simp at h; obtain ⟨rfl, _⟩ := h; simp [Tok.litJson]; done)
    | (simp at h; obtain ⟨rfl, _⟩ := h; simp only [Tok.litJson]; exact pj _ _ ‹_›)

theorem lexLoop_litJson (total : Nat) : ∀ (fuel : Nat) (cs : List Char) (acc : List (Nat × Tok)) (ts : List (Nat × Tok)),
    (∀ pt ∈ acc, pt.2.litJson = true) → Lexer.loop total fuel cs acc = .ok ts →
    ∀ pt ∈ ts, pt.2.litJson = true := by
  intro fuel
  induction fuel with
  | zero => intro cs acc ts _ h; simp [Lexer.loop] at h
  | succ n ih =>
    intro cs acc ts hacc h
    cases cs with
    | nil =>
      simp [Lexer.loop] at h
      subst h
      intro pt hpt
      simp at hpt
      rcases hpt with hpt | rfl
      · exact hacc _ hpt
      · rfl
    | cons c cs' =>
      simp only [Lexer.loop] at h
      split at h
      · simp at h
      · rename_i t r hlex
        refine ih r _ ts ?_ h
        intro pt hpt
        rcases List.mem_cons.mp hpt with rfl | hpt
        · exact lexOne_litJson _ _ _ _ _ hlex
        · exact hacc _ hpt
      · exact ih _ _ ts hacc h

theorem tokenize_litJson (cs : List Char) (ts : List PT) (h : tokenize cs = .ok ts) :
    ∀ pt ∈ ts, pt.2.litJson = true :=
  lexLoop_litJson _ _ _ _ _ (by simp) h

/-! ### from the yield to the tree -/

def toksLit (ts : List Tok) : Prop := ∀ t ∈ ts, t.litJson = true

theorem toksLit_cons {t : Tok} {ts : List Tok} : toksLit (t :: ts) ↔ t.litJson = true ∧ toksLit ts := by
  simp [toksLit]
theorem toksLit_append {a b : List Tok} : toksLit (a ++ b) ↔ toksLit a ∧ toksLit b := by
  simp only [toksLit, List.mem_append]
  constructor
  · intro h; exact ⟨fun t ht => h t (.inl ht), fun t ht => h t (.inr ht)⟩
  · rintro ⟨h1, h2⟩ t (ht | ht)
    · exact h1 t ht
    · exact h2 t ht

mutual
theorem Nud.ast_litJson : ∀ n : Nud, toksLit n.toks → n.ast.LitJson = true
  | .at, _ => rfl
  | .field _, _ => rfl
  | .qfield _, _ => rfl
  | .call _ args, h => by
    simp only [Nud.toks, toksLit_cons, toksLit_append] at h
    simp only [Nud.ast, Ast.LitJson]
    exact argsAst_litJson args h.2.2.1
  | .lit v, h => by
    simp only [Nud.toks, toksLit_cons, Tok.litJson] at h
    simp only [Nud.ast, Ast.LitJson]; exact h.1
  | .star r, h => by
    simp only [Nud.toks, toksLit_cons] at h
    simp [Nud.ast, Ast.LitJson, Rhs.ast_litJson r h.2]
  | .idx _, _ => rfl
  | .slice hd r, h => by
    simp only [Nud.toks, toksLit_cons, toksLit_append] at h
    simp [Nud.ast, Ast.LitJson, Rhs.ast_litJson r h.2.2.2]
  | .wildIdx r, h => by
    simp only [Nud.toks, toksLit_cons] at h
    simp [Nud.ast, Ast.LitJson, Rhs.ast_litJson r h.2.2.2]
  | .mlist es, h => by
    simp only [Nud.toks, toksLit_cons, toksLit_append] at h
    simp only [Nud.ast, Ast.LitJson]
    exact argsAst_litJson es h.2.1
  | .flatten r, h => by
    simp only [Nud.toks, toksLit_cons] at h
    simp [Nud.ast, Ast.LitJson, Rhs.ast_litJson r h.2]
  | .mhash kvs, h => by
    simp only [Nud.toks, toksLit_cons, toksLit_append] at h
    simp only [Nud.ast, Ast.LitJson]
    exact kvsAst_litJson kvs h.2.1
  | .not e, h => by
    simp only [Nud.toks, toksLit_cons] at h
    simp [Nud.ast, Ast.LitJson, Expr.ast_litJson e h.2]
  | .filter p r, h => by
    simp only [Nud.toks, toksLit_cons, toksLit_append] at h
    simp [Nud.ast, Ast.LitJson, Expr.ast_litJson p h.2.1, Rhs.ast_litJson r h.2.2.2]
  | .paren e, h => by
    simp only [Nud.toks, toksLit_cons, toksLit_append] at h
    simp only [Nud.ast]; exact Expr.ast_litJson e h.2.1
  | .expref e, h => by
    simp only [Nud.toks, toksLit_cons] at h
    simp [Nud.ast, Ast.LitJson, Expr.ast_litJson e h.2]
theorem Led.ast_litJson : ∀ (l : Led) (left : Ast), left.LitJson = true → toksLit l.toks →
    (l.ast left).LitJson = true
  | .dotStar r, left, hl, h => by
    simp only [Led.toks, toksLit_cons] at h
    simp [Led.ast, Ast.LitJson, hl, Rhs.ast_litJson r h.2.2]
  | .dot d, left, hl, h => by
    simp only [Led.toks, toksLit_cons] at h
    simp [Led.ast, Ast.LitJson, hl, DotRhs.ast_litJson d h.2]
  | .index _, left, hl, _ => by simp [Led.ast, Ast.LitJson, hl]
  | .sliceL hd r, left, hl, h => by
    simp only [Led.toks, toksLit_cons, toksLit_append] at h
    simp [Led.ast, Ast.LitJson, hl, Rhs.ast_litJson r h.2.2.2]
  | .wildIdxL r, left, hl, h => by
    simp only [Led.toks, toksLit_cons] at h
    simp [Led.ast, Ast.LitJson, hl, Rhs.ast_litJson r h.2.2.2]
  | .or e, left, hl, h => by
    simp only [Led.toks, toksLit_cons] at h
    simp [Led.ast, Ast.LitJson, hl, Expr.ast_litJson e h.2]
  | .and e, left, hl, h => by
    simp only [Led.toks, toksLit_cons] at h
    simp [Led.ast, Ast.LitJson, hl, Expr.ast_litJson e h.2]
  | .pipe e, left, hl, h => by
    simp only [Led.toks, toksLit_cons] at h
    simp [Led.ast, Ast.LitJson, hl, Expr.ast_litJson e h.2]
  | .cmp o e, left, hl, h => by
    simp only [Led.toks, toksLit_cons] at h
    simp [Led.ast, Ast.LitJson, hl, Expr.ast_litJson e h.2]
  | .flattenL r, left, hl, h => by
    simp only [Led.toks, toksLit_cons] at h
    simp [Led.ast, Ast.LitJson, hl, Rhs.ast_litJson r h.2]
  | .filterL p r, left, hl, h => by
    simp only [Led.toks, toksLit_cons, toksLit_append] at h
    simp [Led.ast, Ast.LitJson, hl, Expr.ast_litJson p h.2.1, Rhs.ast_litJson r h.2.2.2]
  | .callDev args, left, hl, h => by
    simp only [Led.toks, toksLit_cons, toksLit_append] at h
    simp only [Led.ast]
    split
    · simp only [Ast.LitJson]; exact argsAst_litJson args h.2.1
    · exact hl
theorem Rhs.ast_litJson : ∀ r : Rhs, toksLit r.toks → r.ast.LitJson = true
  | .none, _ => rfl
  | .dot d, h => by
    simp only [Rhs.toks, toksLit_cons] at h
    simp only [Rhs.ast]; exact DotRhs.ast_litJson d h.2
  | .bracket e, h => by
    simp only [Rhs.toks] at h
    simp only [Rhs.ast]; exact Expr.ast_litJson e h
theorem DotRhs.ast_litJson : ∀ d : DotRhs, toksLit d.toks → d.ast.LitJson = true
  | .mlist es, h => by
    simp only [DotRhs.toks, toksLit_cons, toksLit_append] at h
    simp only [DotRhs.ast, Ast.LitJson]
    exact argsAst_litJson es h.2.1
  | .expr e, h => by
    simp only [DotRhs.toks] at h
    simp only [DotRhs.ast]; exact Expr.ast_litJson e h
theorem Expr.ast_litJson : ∀ e : Expr, toksLit e.toks → e.ast.LitJson = true
  | .mk hd ls, h => by
    simp only [Expr.toks, toksLit_append] at h
    simp only [Expr.ast]
    exact ledsAst_litJson ls hd.ast (Nud.ast_litJson hd h.1) h.2
theorem ledsAst_litJson : ∀ (ls : List Led) (left : Ast), left.LitJson = true → toksLit (ledsToks ls) →
    (ledsAst left ls).LitJson = true
  | [], left, hl, _ => by simpa [ledsAst] using hl
  | l :: ls, left, hl, h => by
    simp only [ledsToks, toksLit_append] at h
    simp only [ledsAst]
    exact ledsAst_litJson ls _ (Led.ast_litJson l left hl h.1) h.2
theorem argsAst_litJson : ∀ es : List Expr, toksLit (argsToks es) → Ast.litJsonL (exprsAst es) = true
  | [], _ => rfl
  | e :: es, h => by
    simp only [argsToks, toksLit_append] at h
    simp [exprsAst, Ast.litJsonL, Expr.ast_litJson e h.1, argsTail_litJson es h.2]
theorem argsTail_litJson : ∀ es : List Expr, toksLit (argsTail es) → Ast.litJsonL (exprsAst es) = true
  | [], _ => rfl
  | e :: es, h => by
    simp only [argsTail, toksLit_cons, toksLit_append] at h
    simp [exprsAst, Ast.litJsonL, Expr.ast_litJson e h.2.1, argsTail_litJson es h.2.2]
theorem kvsAst_litJson : ∀ kvs : List (Bool × String × Expr), toksLit (kvsToks kvs) → Ast.litJsonK (kvsAst kvs) = true
  | [], _ => rfl
  | (q, s, e) :: r, h => by
    simp only [kvsToks, toksLit_cons, toksLit_append] at h
    simp [kvsAst, Ast.litJsonK, Expr.ast_litJson e h.2.2.1, kvsTail_litJson r h.2.2.2]
theorem kvsTail_litJson : ∀ kvs : List (Bool × String × Expr), toksLit (kvsTail kvs) → Ast.litJsonK (kvsAst kvs) = true
  | [], _ => rfl
  | (q, s, e) :: r, h => by
    simp only [kvsTail, toksLit_cons, toksLit_append] at h
    simp [kvsAst, Ast.litJsonK, Expr.ast_litJson e h.2.2.2.1, kvsTail_litJson r h.2.2.2.2]
end

mutual
theorem Ast.strip_litJson : ∀ a : Ast, a.strip.LitJson = a.LitJson
  | .comparison _ _ l r => by simp [Ast.strip, Ast.LitJson, Ast.strip_litJson l, Ast.strip_litJson r]
  | .condition _ l r => by simp [Ast.strip, Ast.LitJson, Ast.strip_litJson l, Ast.strip_litJson r]
  | .projection _ l r => by simp [Ast.strip, Ast.LitJson, Ast.strip_litJson l, Ast.strip_litJson r]
  | .and _ l r => by simp [Ast.strip, Ast.LitJson, Ast.strip_litJson l, Ast.strip_litJson r]
  | .or _ l r => by simp [Ast.strip, Ast.LitJson, Ast.strip_litJson l, Ast.strip_litJson r]
  | .subexpr _ l r => by simp [Ast.strip, Ast.LitJson, Ast.strip_litJson l, Ast.strip_litJson r]
  | .expref _ a => by simp [Ast.strip, Ast.LitJson, Ast.strip_litJson a]
  | .flatten _ a => by simp [Ast.strip, Ast.LitJson, Ast.strip_litJson a]
  | .not _ a => by simp [Ast.strip, Ast.LitJson, Ast.strip_litJson a]
  | .objectValues _ a => by simp [Ast.strip, Ast.LitJson, Ast.strip_litJson a]
  | .identity _ => rfl
  | .field _ _ => rfl
  | .index _ _ => rfl
  | .slice _ _ _ _ => rfl
  | .literal _ _ => by simp [Ast.strip, Ast.LitJson]
  | .function _ _ args => by simp [Ast.strip, Ast.LitJson, stripList_litJson args]
  | .multiList _ es => by simp [Ast.strip, Ast.LitJson, stripList_litJson es]
  | .multiHash _ kvs => by simp [Ast.strip, Ast.LitJson, stripKVs_litJson kvs]
theorem stripList_litJson : ∀ as : List Ast, Ast.litJsonL (stripList as) = Ast.litJsonL as
  | [] => rfl
  | a :: as => by simp [stripList, Ast.litJsonL, Ast.strip_litJson a, stripList_litJson as]
theorem stripKVs_litJson : ∀ as : List (String × Ast), Ast.litJsonK (stripKVs as) = Ast.litJsonK as
  | [] => rfl
  | (k, a) :: as => by simp [stripKVs, Ast.litJsonK, Ast.strip_litJson a, stripKVs_litJson as]
end

/-- the parser builds trees whose literals are the literal tokens it was given -/
theorem parseTokens_litJson (ts : List PT) (e : Expr) (a : Ast) (h : parseTokens ts = .ok (e, a))
    (hts : ∀ pt ∈ ts, pt.2.litJson = true) : a.LitJson = true := by
  obtain ⟨hy, _, hs⟩ := T1_parseTokens ts e a h
  rw [← Ast.strip_litJson, hs]
  apply Expr.ast_litJson
  intro t ht
  have : t ∈ tk ts := by
    rcases hy with hy | hy <;> rw [hy] <;> simp [ht]
  simp only [tk, List.mem_map] at this
  obtain ⟨pt, hpt, rfl⟩ := this
  exact hts pt hpt

/-- every tree `parseExpr` returns has JSON literals only -/
theorem parseExpr_litJson (cs : List Char) (e : Expr) (a : Ast) (h : parseExpr cs = .ok (e, a)) :
    a.LitJson = true := by
  unfold parseExpr at h
  split at h
  · simp at h
  · rename_i ts hts
    split at h
    · simp at h
    · rename_i r hr
      simp only [Except.ok.injEq] at h; subst h
      exact parseTokens_litJson ts e a hr (tokenize_litJson cs ts hts)

end JmesVerif
