import JmesVerif.Lemmas.SemFullBase
import JmesVerif.Lemmas.SemFullSafe
import JmesVerif.Lemmas.Signature
import JmesVerif.Lemmas.InterpSafe
/-
The call rule: `interpAll` over the arguments, `Registry.get`, `callFn` (signature check, then
`Builtin.pure` or `mapExpref` / `keysTyped` / `byExtreme` on the expression reference) against
`SemFull.call` / `SemFull.apply` on evaluated arguments and closures.
-/
namespace JmesVerif
open Spec

/-! ### the name table -/
theorem names_eq_all : SemFull.names = Builtin.all := rfl

theorem get_map_lookup (l : List (String × Builtin)) (name : String) :
    Registry.get (l.map fun (n, b) => (n, Fn.builtin b)) name = (l.lookup name).map Fn.builtin := by
  induction l with
  | nil => simp [Registry.get, List.lookup]
  | cons p l ih =>
    obtain ⟨n, b⟩ := p
    simp only [List.map, Registry.get, List.lookup]
    by_cases h : n = name
    · subst h; simp
    · have : (name == n) = false := by simpa using fun h' => h h'.symm
      simp [h, this, ih]

/-- the default registry binds exactly the 26 names of the specification -/
theorem default_get (name : String) :
    Registry.default.get name = (SemFull.builtinOf name).map Fn.builtin := by
  unfold Registry.default SemFull.builtinOf
  rw [names_eq_all]
  exact get_map_lookup _ _

theorem lookup_mem_names (l : List (String × Builtin)) (name : String) (b : Builtin)
    (h : l.lookup name = some b) : (name, b) ∈ l := by
  induction l with
  | nil => simp [List.lookup] at h
  | cons p l ih =>
    obtain ⟨n, b'⟩ := p
    simp only [List.lookup] at h
    split at h
    · rename_i heq
      simp at heq h
      subst heq h; simp
    · simp [ih h]

theorem names_slot : ∀ p ∈ SemFull.names, ∀ i, SemFull.exprefParam p.1 i = p.2.slot i := by
  simp [SemFull.names, SemFull.exprefParam, Builtin.slot]

/-- the expref-typed parameter positions of the specification are those of the builtin -/
theorem exprefParam_slot (name : String) (b : Builtin) (h : SemFull.builtinOf name = some b) (i : Nat) :
    SemFull.exprefParam name i = b.slot i :=
  names_slot _ (lookup_mem_names _ _ _ h) i

/-! ### evaluating an expression reference on every element -/
section fn
variable (rt : Registry)

/-- one concrete tree converges to what the semantics says -/
def CI1 (d : Val) (a : Ast) (off : Nat) (s : Option Val) : Prop :=
  ∃ n, ∀ fuel, n ≤ fuel → AgreesF (interp rt fuel d a off) s off

theorem cm_each {body : Ast} {o : Nat} {f : Val → Option Val} :
    ∀ xs : List Val, (∀ x ∈ xs, CI1 rt x body o (f x)) →
      ∃ n, ∀ fuel, n ≤ fuel → AgreesF (mapExpref rt fuel xs body o) (Sem.optMapM f xs) o
  | [], _ => by
    refine ⟨1, fun fuel hf => ?_⟩
    obtain ⟨k, rfl, hk⟩ := fuel_succ hf
    simp [mapExpref, AgreesF, Sem.optMapM]
  | x :: rest, h => by
    obtain ⟨n1, h1⟩ := h x (by simp)
    cases hfx : f x with
    | none =>
      refine ⟨n1 + 1, fun fuel hf => ?_⟩
      obtain ⟨k, rfl, hk⟩ := fuel_succ hf
      have e1 := h1 k hk
      rw [hfx] at e1
      obtain ⟨e', ho, hg⟩ := e1
      simp only [mapExpref, ho, Sem.optMapM, hfx]
      exact ⟨e', rfl, hg⟩
    | some v =>
      obtain ⟨n2, h2⟩ := cm_each rest (fun y hy => h y (by simp [hy]))
      refine ⟨max n1 n2 + 1, fun fuel hf => ?_⟩
      obtain ⟨k, rfl, hk⟩ := fuel_succ hf
      have e1 := h1 k (by omega)
      have e2 := h2 k (by omega)
      rw [hfx] at e1
      simp only [AgreesF] at e1
      cases hm : Sem.optMapM f rest with
      | none =>
        rw [hm] at e2; obtain ⟨e', ho, hg⟩ := e2
        simp only [mapExpref, e1, ho, Sem.optMapM, hfx, hm, Option.map_none]
        exact ⟨e', rfl, hg⟩
      | some ys =>
        rw [hm] at e2; simp only [AgreesF] at e2
        simp only [mapExpref, e1, e2, Sem.optMapM, hfx, hm, Option.map_some, AgreesF]

/-- keys of one type -/
def typedKeys (ty : JType) (s : Option (List Val)) : Option (List Val) :=
  s.bind fun ks => if ks.all (fun k => k.type == ty) then some ks else none

theorem ck_typed {body : Ast} {o : Nat} {f : Val → Option Val} {ty : JType} :
    ∀ (xs : List Val) (inv : Nat), (∀ x ∈ xs, CI1 rt x body o (f x)) →
      ∃ n, ∀ fuel, n ≤ fuel →
        AgreesF (keysTyped rt fuel xs body ty inv o) (typedKeys ty (Sem.optMapM f xs)) o
  | [], inv, _ => by
    refine ⟨1, fun fuel hf => ?_⟩
    obtain ⟨k, rfl, hk⟩ := fuel_succ hf
    simp [keysTyped, AgreesF, Sem.optMapM, typedKeys]
  | x :: rest, inv, h => by
    obtain ⟨n1, h1⟩ := h x (by simp)
    cases hfx : f x with
    | none =>
      refine ⟨n1 + 1, fun fuel hf => ?_⟩
      obtain ⟨k, rfl, hk⟩ := fuel_succ hf
      have e1 := h1 k hk
      rw [hfx] at e1
      obtain ⟨e', ho, hg⟩ := e1
      simp only [keysTyped, ho, Sem.optMapM, hfx, typedKeys, Option.bind_none]
      exact ⟨e', rfl, hg⟩
    | some v =>
      obtain ⟨n2, h2⟩ := ck_typed (ty := ty) rest (inv + 1) (fun y hy => h y (by simp [hy]))
      refine ⟨max n1 n2 + 1, fun fuel hf => ?_⟩
      obtain ⟨k, rfl, hk⟩ := fuel_succ hf
      have e1 := h1 k (by omega)
      have e2 := h2 k (by omega)
      rw [hfx] at e1
      simp only [AgreesF] at e1
      by_cases hty : v.type = ty
      · cases hm : Sem.optMapM f rest with
        | none =>
          rw [hm] at e2; obtain ⟨e', ho, hg⟩ := e2
          simp only [keysTyped, e1, ho, Sem.optMapM, hfx, hm, Option.map_none, typedKeys,
            Option.bind_none]
          simp only [hty, ne_eq, not_true_eq_false, if_false]
          exact ⟨e', rfl, hg⟩
        | some ys =>
          rw [hm] at e2
          simp only [keysTyped, e1, Sem.optMapM, hfx, hm, Option.map_some, typedKeys,
            Option.bind_some, hty, ne_eq, not_true_eq_false, if_false, List.all_cons, beq_self_eq_true,
            Bool.true_and]
          simp only [typedKeys, Option.bind_some] at e2
          by_cases hall : (ys.all fun k => k.type == ty) = true
          · simp only [hall, if_true, AgreesF] at e2 ⊢
            simp [e2]
          · simp only [hall, Bool.false_eq_true, if_false] at e2 ⊢
            obtain ⟨e', ho, hg⟩ := e2
            simp only [ho]
            exact ⟨e', rfl, hg⟩
      · have hspec : typedKeys ty (Sem.optMapM f (x :: rest)) = none := by
          simp only [Sem.optMapM, hfx, typedKeys]
          cases Sem.optMapM f rest with
          | none => rfl
          | some ys => simp [hty]
        rw [hspec]
        simp only [keysTyped, e1, ne_eq, hty, not_false_eq_true, if_true]
        exact ⟨_, rfl, rfl⟩

/-- the common part of `sort_by` and `min_and_max_by!`: key of the first element, its type check,
the keys of the others (`keysTyped`), then `cont` on all keys -/
def keyedRun (k : Nat) (x : Val) (rest : List Val) (body : Ast) (o : Nat) (msg : String)
    (cont : List Val → Val) : ERes Val :=
  match interp rt k x body o with
  | .error e => .error e
  | .ok (k0, off) =>
    if k0.type ≠ .string ∧ k0.type ≠ .number then
      .error (.runtime (.invalidReturnType msg k0.type.name 1 1) off)
    else
      match keysTyped rt k rest body k0.type 1 off with
      | .error e => .error e
      | .ok (ks, off) => .ok (cont (k0 :: ks), off)

theorem jt_beq (a b : JType) : (a == b) = decide (a = b) := by
  cases a <;> cases b <;> decide

theorem keysOk_cons (k0 : Val) (ks : List Val) :
    SemFull.keysOk (k0 :: ks) =
      ((k0.type == .number || k0.type == .string) && ks.all (fun k => k.type == k0.type)) := by
  unfold SemFull.keysOk
  cases h : k0.type <;> simp [h, jt_beq]

theorem keyedRun_conv {x : Val} {rest : List Val} {body : Ast} {o : Nat} {f : Val → Option Val}
    (msg : String) (cont : List Val → Val) (h : ∀ y ∈ x :: rest, CI1 rt y body o (f y)) :
    ∃ n, ∀ k, n ≤ k → AgreesF (keyedRun rt k x rest body o msg cont)
      ((Sem.optMapM f (x :: rest)).bind fun ks => if SemFull.keysOk ks then some (cont ks) else none) o := by
  obtain ⟨n1, h1⟩ := h x (by simp)
  cases hfx : f x with
  | none =>
    refine ⟨n1, fun k hk => ?_⟩
    have e1 := h1 k hk
    rw [hfx] at e1
    obtain ⟨e', ho, hg⟩ := e1
    simp only [keyedRun, ho, Sem.optMapM, hfx, Option.bind_none]
    exact ⟨e', rfl, hg⟩
  | some k0 =>
    obtain ⟨n2, h2⟩ := ck_typed rt (ty := k0.type) rest 1 (fun y hy => h y (by simp [hy]))
    refine ⟨max n1 n2, fun k hk => ?_⟩
    have e1 := h1 k (by omega)
    have e2 := h2 k (by omega)
    rw [hfx] at e1
    simp only [AgreesF] at e1
    simp only [keyedRun, e1, Sem.optMapM, hfx]
    by_cases hty : k0.type ≠ .string ∧ k0.type ≠ .number
    · rw [if_pos hty]
      have hspec : ((Sem.optMapM f rest).map (k0 :: ·)).bind
          (fun ks => if SemFull.keysOk ks then some (cont ks) else none) = none := by
        cases Sem.optMapM f rest with
        | none => rfl
        | some ks =>
          simp only [Option.map_some, Option.bind_some, keysOk_cons]
          have h1 : (k0.type == JType.number) = false := by simpa using hty.2
          have h2 : (k0.type == JType.string) = false := by simpa using hty.1
          simp [h1, h2]
      rw [hspec]
      exact ⟨_, rfl, rfl⟩
    · rw [if_neg hty]
      have hns : (k0.type == JType.number || k0.type == JType.string) = true := by
        cases hk0 : k0.type <;> simp [hk0] at hty ⊢
      cases hm : Sem.optMapM f rest with
      | none =>
        rw [hm] at e2
        obtain ⟨e', ho, hg⟩ := e2
        simp only [ho, Option.map_none, Option.bind_none]
        exact ⟨e', rfl, hg⟩
      | some ks =>
        rw [hm] at e2
        simp only [typedKeys, Option.bind_some] at e2
        simp only [Option.map_some, Option.bind_some, keysOk_cons, hns, Bool.true_and]
        by_cases hall : (ks.all fun k => k.type == k0.type) = true
        · simp only [hall, if_true, AgreesF] at e2 ⊢
          simp [e2]
        · simp only [hall, Bool.false_eq_true, if_false] at e2 ⊢
          obtain ⟨e', ho, hg⟩ := e2
          simp only [ho]
          exact ⟨e', rfl, hg⟩

/-! ### `callFn` on the four builtins that take an expression reference -/

theorem validate_map_ok (a : Ast) (xs : List Val) (o : Nat) :
    Builtin.map.sig.validate [.expref a, .arr xs] o = .ok () :=
  (validate_two _ _ _ _).2 ⟨_, _, rfl, by simp [ArgT.isValid, Val.type], by simp [ArgT.isValid, Val.type]⟩
theorem validate_by_ok (b : Builtin) (hb : b = .sortBy ∨ b = .maxBy ∨ b = .minBy) (a : Ast) (xs : List Val)
    (o : Nat) : b.sig.validate [.arr xs, .expref a] o = .ok () := by
  rcases hb with rfl | rfl | rfl <;>
    exact (validate_two _ _ _ _).2 ⟨_, _, rfl, by simp [ArgT.isValid, Val.type], by simp [ArgT.isValid, Val.type]⟩

theorem callFn_sortBy_nil (k : Nat) (a : Ast) (o : Nat) :
    callFn rt (k + 1) (.builtin .sortBy) [.arr [], .expref a] o = .ok (.arr [], o) := by
  rw [callFn.eq_def]
  simp only [validate_by_ok .sortBy (.inl rfl)]

theorem callFn_sortBy_cons (k : Nat) (a : Ast) (x : Val) (rest : List Val) (o : Nat) :
    callFn rt (k + 1) (.builtin .sortBy) [.arr (x :: rest), .expref a] o =
      keyedRun rt k x rest a o "expression->string|expression->number"
        (fun ks => .arr ((sortPairs ((x :: rest).zip ks)).map (·.1))) := by
  rw [callFn.eq_def]
  simp only [validate_by_ok .sortBy (.inl rfl), keyedRun]
  rfl

theorem byExtreme_nil (k : Nat) (isMax : Bool) (a : Ast) (o : Nat) :
    byExtreme rt (k + 1) isMax [] a o = .ok (.null, o) := by
  rw [byExtreme.eq_def]

theorem byExtreme_cons (k : Nat) (isMax : Bool) (a : Ast) (x : Val) (rest : List Val) (o : Nat) :
    byExtreme rt (k + 1) isMax (x :: rest) a o =
      keyedRun rt k x rest a o "expression->number|expression->string"
        (fun ks => SemFull.pickExtreme isMax ((x :: rest).zip ks)) := by
  rw [byExtreme.eq_def]
  simp only [keyedRun]
  cases interp rt k x a o with
  | error e => rfl
  | ok p =>
    obtain ⟨k0, off⟩ := p
    simp only
    split
    · rfl
    · cases keysTyped rt k rest a k0.type 1 off with
      | error e => rfl
      | ok q =>
        obtain ⟨ks, off'⟩ := q
        simp only [List.zip_cons_cons, SemFull.pickExtreme]
        cases isMax <;> simp

/-! ### evaluated arguments of the model against evaluated arguments of the semantics -/

/-- the model's argument values `vs` (positions `i, i+1, …`) against the semantics' arguments: a
value is the same JSON value; a function is an expression reference, in a position `ok` allows,
whose body converges to the function on every element of `D`, at every offset -/
def ArgsRel (ok : Nat → Bool) (D : List Val) : Nat → List Val → List SemFull.Arg → Prop
  | _, [], [] => True
  | i, v :: vs, .val w :: as => (v = w ∧ w.isJson = true) ∧ ArgsRel ok D (i + 1) vs as
  | i, v :: vs, .fn f :: as =>
    (ok i = true ∧ ∃ body, v = .expref body ∧ ∀ x ∈ D, ∀ o, CI1 rt x body o (f x)) ∧
      ArgsRel ok D (i + 1) vs as
  | _, _, _ => False

/-- the outcome of a call: the value (any offset), or a genuine error -/
def AgreesC (r : ERes Val) (s : Option Val) : Prop :=
  match s with
  | some v => ∃ o', r = .ok (v, o')
  | none => ∃ e, r = .error e ∧ e.genuine = true

theorem rel_allVals {ok : Nat → Bool} {D : List Val} (hok : ∀ j, ok j = false) :
    ∀ (as : List SemFull.Arg) (i : Nat) (vs : List Val), ArgsRel rt ok D i vs as →
      SemFull.allVals as = some vs
  | [], i, vs, h => by cases vs <;> simp [ArgsRel] at h; rfl
  | .val w :: as, i, vs, h => by
    cases vs with
    | nil => simp [ArgsRel] at h
    | cons v vs =>
      simp only [ArgsRel] at h
      obtain ⟨⟨rfl, _⟩, h2⟩ := h
      simp [SemFull.allVals, rel_allVals hok as (i + 1) vs h2]
  | .fn f :: as, i, vs, h => by
    cases vs with
    | nil => simp [ArgsRel] at h
    | cons v vs => simp [ArgsRel, hok] at h

theorem validate_off (s : Sig) (args : List Val) (o o' : Nat) :
    s.validate args o = .ok () ↔ s.validate args o' = .ok () := by
  rw [validate_ok_iff, validate_ok_iff]

theorem validate_error_genuine (s : Sig) (args : List Val) (o : Nat) (e : EvalErr)
    (h : s.validate args o = .error e) : e.genuine = true := by
  obtain ⟨r, rfl⟩ := validate_error_offset s args o e h
  rfl

theorem callFn_validate_error (k : Nat) (b : Builtin) (vs : List Val) (o : Nat) (e : EvalErr)
    (h : b.sig.validate vs o = .error e) : callFn rt (k + 1) (.builtin b) vs o = .error e := by
  rw [callFn.eq_def]
  simp only [h]

theorem fn_conv_pure (b : Builtin) (hu : b.usesExpref = false) (vs : List Val) (o : Nat) :
    ∃ n, ∀ fuel, n ≤ fuel → AgreesC (callFn rt fuel (.builtin b) vs o) (SemFull.pureFn b vs) := by
  refine ⟨1, fun fuel hf => ?_⟩
  obtain ⟨k, rfl, _⟩ := fuel_succ hf
  rw [callFn_pure rt k b vs o hu]
  unfold SemFull.pureFn
  cases hv : b.sig.validate vs o with
  | error e =>
    have hg := validate_error_genuine _ _ _ _ hv
    cases h0 : b.sig.validate vs 0 with
    | error e0 => exact ⟨e, rfl, hg⟩
    | ok u =>
      cases u
      have := (validate_off b.sig vs 0 o).mp h0
      rw [hv] at this; cases this
  | ok u =>
    cases u
    have h0 := (validate_off b.sig vs o 0).mp hv
    simp only [h0]
    cases hp : b.pure vs with
    | error e =>
      obtain ⟨⟨msg, rfl⟩, _⟩ := pure_error_is_internal b vs o hv hu e hp
      exact ⟨_, rfl, rfl⟩
    | ok v => exact ⟨o, rfl⟩

theorem mapShape_some {as : List SemFull.Arg} {p : (Val → Option Val) × List Val}
    (h : SemFull.mapShape as = some p) : as = [.fn p.1, .val (.arr p.2)] := by
  unfold SemFull.mapShape at h
  split at h
  · simp at h; subst h; rfl
  · simp at h
theorem byShape_some {as : List SemFull.Arg} {p : (Val → Option Val) × List Val}
    (h : SemFull.byShape as = some p) : as = [.val (.arr p.2), .fn p.1] := by
  unfold SemFull.byShape at h
  split at h
  · simp at h; subst h; rfl
  · simp at h

theorem rel_map_shape {ok : Nat → Bool} {D : List Val} {vs : List Val} {f : Val → Option Val}
    {xs : List Val} (h : ArgsRel rt ok D 0 vs [.fn f, .val (.arr xs)]) :
    ∃ body, vs = [.expref body, .arr xs] ∧ ∀ x ∈ D, ∀ o, CI1 rt x body o (f x) := by
  rcases vs with _ | ⟨v0, _ | ⟨v1, _ | ⟨v2, vs⟩⟩⟩
  · simp [ArgsRel] at h
  · simp [ArgsRel] at h
  · simp only [ArgsRel] at h
    obtain ⟨⟨_, body, hv0, hb⟩, ⟨hv1, _⟩, _⟩ := h
    subst hv0 hv1
    exact ⟨body, rfl, hb⟩
  · simp [ArgsRel] at h
theorem rel_by_shape {ok : Nat → Bool} {D : List Val} {vs : List Val} {f : Val → Option Val}
    {xs : List Val} (h : ArgsRel rt ok D 0 vs [.val (.arr xs), .fn f]) :
    ∃ body, vs = [.arr xs, .expref body] ∧ ∀ x ∈ D, ∀ o, CI1 rt x body o (f x) := by
  rcases vs with _ | ⟨v0, _ | ⟨v1, _ | ⟨v2, vs⟩⟩⟩
  · simp [ArgsRel] at h
  · simp [ArgsRel] at h
  · simp only [ArgsRel] at h
    obtain ⟨⟨hv0, _⟩, ⟨_, body, hv1, hb⟩, _⟩ := h
    subst hv0 hv1
    exact ⟨body, rfl, hb⟩
  · simp [ArgsRel] at h

theorem rel_map_shape_inv {ok : Nat → Bool} {D : List Val} {as : List SemFull.Arg} {a : Ast}
    {xs : List Val} (h : ArgsRel rt ok D 0 [.expref a, .arr xs] as) :
    ∃ f, as = [.fn f, .val (.arr xs)] := by
  rcases as with _ | ⟨A0, _ | ⟨A1, _ | ⟨A2, as⟩⟩⟩
  · simp [ArgsRel] at h
  · cases A0 <;> simp [ArgsRel] at h
  · cases A0 with
    | val w =>
      simp only [ArgsRel] at h
      obtain ⟨⟨rfl, hj⟩, _⟩ := h
      simp at hj
    | fn f =>
      cases A1 with
      | val w =>
        simp only [ArgsRel] at h
        obtain ⟨_, ⟨rfl, _⟩, _⟩ := h
        exact ⟨f, rfl⟩
      | fn g =>
        simp only [ArgsRel] at h
        obtain ⟨_, ⟨_, body, hb, _⟩, _⟩ := h
        cases hb
  · cases A0 <;> cases A1 <;> simp [ArgsRel] at h
theorem rel_by_shape_inv {ok : Nat → Bool} {D : List Val} {as : List SemFull.Arg} {a : Ast}
    {xs : List Val} (h : ArgsRel rt ok D 0 [.arr xs, .expref a] as) :
    ∃ f, as = [.val (.arr xs), .fn f] := by
  rcases as with _ | ⟨A0, _ | ⟨A1, _ | ⟨A2, as⟩⟩⟩
  · simp [ArgsRel] at h
  · cases A0 <;> simp [ArgsRel] at h
  · cases A0 with
    | fn f =>
      simp only [ArgsRel] at h
      obtain ⟨⟨_, body, hb, _⟩, _⟩ := h
      cases hb
    | val w =>
      cases A1 with
      | val w' =>
        simp only [ArgsRel] at h
        obtain ⟨_, ⟨rfl, hj⟩, _⟩ := h
        simp at hj
      | fn g =>
        simp only [ArgsRel] at h
        obtain ⟨⟨rfl, _⟩, _⟩ := h
        exact ⟨g, rfl⟩
  · cases A0 <;> cases A1 <;> simp [ArgsRel] at h

theorem fnDomain_map (f : Val → Option Val) (xs : List Val) :
    fnDomain (some [.fn f, .val (.arr xs)]) = xs := rfl
theorem fnDomain_by (f : Val → Option Val) (xs : List Val) :
    fnDomain (some [.val (.arr xs), .fn f]) = xs := rfl

theorem fn_conv_map {ok : Nat → Bool} (vs : List Val) (as : List SemFull.Arg)
    (hrel : ArgsRel rt ok (fnDomain (some as)) 0 vs as) (o : Nat) :
    ∃ n, ∀ fuel, n ≤ fuel → AgreesC (callFn rt fuel (.builtin .map) vs o) (SemFull.apply .map as) := by
  cases hs : SemFull.mapShape as with
  | some p =>
    obtain ⟨f, xs⟩ := p
    have has := mapShape_some hs
    simp only at has
    subst has
    obtain ⟨body, rfl, hb⟩ := rel_map_shape rt hrel
    rw [fnDomain_map] at hb
    obtain ⟨n, hn⟩ := cm_each rt (body := body) (o := o) (f := f) xs (fun x hx => hb x hx o)
    refine ⟨n + 1, fun fuel hf => ?_⟩
    obtain ⟨k, rfl, hk⟩ := fuel_succ hf
    have e := hn k hk
    rw [callFn_map]
    simp only [SemFull.apply, hs, Option.bind_some]
    cases hm : Sem.optMapM f xs with
    | none =>
      rw [hm] at e
      obtain ⟨e', ho, hg⟩ := e
      simp only [ho]
      exact ⟨e', rfl, hg⟩
    | some ys =>
      rw [hm] at e
      simp only [AgreesF] at e
      simp only [e]
      exact ⟨o, rfl⟩
  | none =>
    simp only [SemFull.apply, hs, Option.bind_none]
    refine ⟨1, fun fuel hf => ?_⟩
    obtain ⟨k, rfl, _⟩ := fuel_succ hf
    cases hv : Builtin.map.sig.validate vs o with
    | error e =>
      rw [callFn_validate_error rt k _ _ _ _ hv]
      exact ⟨e, rfl, validate_error_genuine _ _ _ _ hv⟩
    | ok u =>
      cases u
      exfalso
      rcases expref_args_shape .map vs o hv rfl with ⟨_, a, xs, rfl⟩ | ⟨h, _⟩
      · obtain ⟨f, rfl⟩ := rel_map_shape_inv rt hrel
        simp [SemFull.mapShape] at hs
      · simp at h

/-- the semantics of `sort_by` / `max_by` / `min_by` on a function and an array -/
def bySpec (b : Builtin) (f : Val → Option Val) (xs : List Val) : Option Val :=
  match b with
  | .sortBy => SemFull.sortBy f xs
  | .maxBy => SemFull.extremeBy true f xs
  | _ => SemFull.extremeBy false f xs

theorem by_run (b : Builtin) (hb : b = .sortBy ∨ b = .maxBy ∨ b = .minBy) (body : Ast)
    (f : Val → Option Val) (xs : List Val) (o : Nat) (h : ∀ x ∈ xs, CI1 rt x body o (f x)) :
    ∃ n, ∀ fuel, n ≤ fuel →
      AgreesF (callFn rt fuel (.builtin b) [.arr xs, .expref body] o) (bySpec b f xs) o := by
  cases xs with
  | nil =>
    refine ⟨2, fun fuel hf => ?_⟩
    obtain ⟨k, rfl, hk⟩ := fuel_succ hf
    obtain ⟨k, rfl, _⟩ := fuel_succ hk
    rcases hb with rfl | rfl | rfl
    · rw [callFn_sortBy_nil]
      simp [AgreesF, bySpec, SemFull.sortBy, Sem.optMapM, SemFull.keysOk, SemFull.sortByKey]
    · rw [callFn_maxBy, byExtreme_nil]
      simp [AgreesF, bySpec, SemFull.extremeBy, Sem.optMapM, SemFull.keysOk, SemFull.pickExtreme]
    · rw [callFn_minBy, byExtreme_nil]
      simp [AgreesF, bySpec, SemFull.extremeBy, Sem.optMapM, SemFull.keysOk, SemFull.pickExtreme]
  | cons x rest =>
    rcases hb with rfl | rfl | rfl
    · obtain ⟨n, hn⟩ := keyedRun_conv rt "expression->string|expression->number"
        (fun ks => .arr ((sortPairs ((x :: rest).zip ks)).map (·.1))) h
      refine ⟨n + 1, fun fuel hf => ?_⟩
      obtain ⟨k, rfl, hk⟩ := fuel_succ hf
      rw [callFn_sortBy_cons]
      have e := hn k hk
      have hspec : bySpec .sortBy f (x :: rest) = (Sem.optMapM f (x :: rest)).bind fun ks =>
          if SemFull.keysOk ks then some (.arr ((sortPairs ((x :: rest).zip ks)).map (·.1))) else none := by
        simp only [bySpec, SemFull.sortBy]
        cases Sem.optMapM f (x :: rest) <;> rfl
      rw [hspec]; exact e
    · obtain ⟨n, hn⟩ := keyedRun_conv rt "expression->number|expression->string"
        (fun ks => SemFull.pickExtreme true ((x :: rest).zip ks)) h
      refine ⟨n + 2, fun fuel hf => ?_⟩
      obtain ⟨k, rfl, hk⟩ := fuel_succ hf
      obtain ⟨k, rfl, hk⟩ := fuel_succ hk
      rw [callFn_maxBy, byExtreme_cons]
      have e := hn k (by omega)
      have hspec : bySpec .maxBy f (x :: rest) = (Sem.optMapM f (x :: rest)).bind fun ks =>
          if SemFull.keysOk ks then some (SemFull.pickExtreme true ((x :: rest).zip ks)) else none := by
        simp only [bySpec, SemFull.extremeBy]
        cases Sem.optMapM f (x :: rest) <;> rfl
      rw [hspec]; exact e
    · obtain ⟨n, hn⟩ := keyedRun_conv rt "expression->number|expression->string"
        (fun ks => SemFull.pickExtreme false ((x :: rest).zip ks)) h
      refine ⟨n + 2, fun fuel hf => ?_⟩
      obtain ⟨k, rfl, hk⟩ := fuel_succ hf
      obtain ⟨k, rfl, hk⟩ := fuel_succ hk
      rw [callFn_minBy, byExtreme_cons]
      have e := hn k (by omega)
      have hspec : bySpec .minBy f (x :: rest) = (Sem.optMapM f (x :: rest)).bind fun ks =>
          if SemFull.keysOk ks then some (SemFull.pickExtreme false ((x :: rest).zip ks)) else none := by
        simp only [bySpec, SemFull.extremeBy]
        cases Sem.optMapM f (x :: rest) <;> rfl
      rw [hspec]; exact e

theorem apply_by (b : Builtin) (hb : b = .sortBy ∨ b = .maxBy ∨ b = .minBy) (as : List SemFull.Arg) :
    SemFull.apply b as = (SemFull.byShape as).bind fun p => bySpec b p.1 p.2 := by
  rcases hb with rfl | rfl | rfl <;> rfl

theorem fn_conv_by {ok : Nat → Bool} (b : Builtin) (hb : b = .sortBy ∨ b = .maxBy ∨ b = .minBy)
    (vs : List Val) (as : List SemFull.Arg)
    (hrel : ArgsRel rt ok (fnDomain (some as)) 0 vs as) (o : Nat) :
    ∃ n, ∀ fuel, n ≤ fuel → AgreesC (callFn rt fuel (.builtin b) vs o) (SemFull.apply b as) := by
  rw [apply_by b hb]
  cases hs : SemFull.byShape as with
  | some p =>
    obtain ⟨f, xs⟩ := p
    have has := byShape_some hs
    simp only at has
    subst has
    obtain ⟨body, rfl, hbody⟩ := rel_by_shape rt hrel
    rw [fnDomain_by] at hbody
    obtain ⟨n, hn⟩ := by_run rt b hb body f xs o (fun x hx => hbody x hx o)
    refine ⟨n, fun fuel hf => ?_⟩
    have e := hn fuel hf
    simp only [Option.bind_some]
    cases hm : bySpec b f xs with
    | none => rw [hm] at e; exact e
    | some v => rw [hm] at e; exact ⟨o, e⟩
  | none =>
    simp only [Option.bind_none]
    refine ⟨1, fun fuel hf => ?_⟩
    obtain ⟨k, rfl, _⟩ := fuel_succ hf
    cases hv : b.sig.validate vs o with
    | error e =>
      rw [callFn_validate_error rt k _ _ _ _ hv]
      exact ⟨e, rfl, validate_error_genuine _ _ _ _ hv⟩
    | ok u =>
      cases u
      exfalso
      have hu : b.usesExpref = true := by rcases hb with rfl | rfl | rfl <;> rfl
      rcases expref_args_shape b vs o hv hu with ⟨h, _⟩ | ⟨_, a, xs, rfl⟩
      · rcases hb with rfl | rfl | rfl <;> simp at h
      · obtain ⟨f, rfl⟩ := rel_by_shape_inv rt hrel
        simp [SemFull.byShape] at hs

theorem apply_pure (b : Builtin) (hu : b.usesExpref = false) (as : List SemFull.Arg) :
    SemFull.apply b as = (SemFull.allVals as).bind (SemFull.pureFn b) := by
  cases b <;> first | rfl | simp [Builtin.usesExpref] at hu

/-- **the function rule at value level**: `callFn` on the model's argument values agrees with
`SemFull.apply` on the semantics' arguments -/
theorem fn_conv (name : String) (b : Builtin) (hb : SemFull.builtinOf name = some b) (vs : List Val)
    (as : List SemFull.Arg)
    (hrel : ArgsRel rt (SemFull.exprefParam name) (fnDomain (some as)) 0 vs as) (o : Nat) :
    ∃ n, ∀ fuel, n ≤ fuel → AgreesC (callFn rt fuel (.builtin b) vs o) (SemFull.apply b as) := by
  by_cases hu : b.usesExpref = true
  · have h4 : b = .map ∨ b = .sortBy ∨ b = .maxBy ∨ b = .minBy := by
      cases b <;> simp [Builtin.usesExpref] at hu <;> simp
    rcases h4 with rfl | h3
    · exact fn_conv_map rt vs as hrel o
    · exact fn_conv_by rt b h3 vs as hrel o
  · have hu' : b.usesExpref = false := by simpa using hu
    have hok : ∀ j, SemFull.exprefParam name j = false := fun j => by
      rw [exprefParam_slot name b hb j]; exact slot_of_not_usesExpref b hu' j
    rw [apply_pure b hu', rel_allVals rt hok as 0 vs hrel]
    exact fn_conv_pure rt b hu' vs o

/-! ### the argument list and the call node -/

/-- every argument list with the given stripped form evaluates (given enough fuel) to values
related to the semantics' arguments `s`, or — for `none` — to a genuine error -/
def CArgsF (ok : Nat → Bool) (D : List Val) (i : Nat) (d : Val) (es0 : List Ast) (off : Nat)
    (s : Option (List SemFull.Arg)) : Prop :=
  ∀ es, stripList es = stripList es0 →
    match s with
    | none => ∃ n, ∀ fuel, n ≤ fuel → ∃ e, interpAll rt fuel d es off = .error e ∧ e.genuine = true
    | some as => ∃ vs, ArgsRel rt ok D i vs as ∧
        ∃ n, ∀ fuel, n ≤ fuel → interpAll rt fuel d es off = .ok (vs, off)

theorem cargs_nil (ok : Nat → Bool) (D : List Val) (i : Nat) (d : Val) (off : Nat) :
    CArgsF rt ok D i d [] off (some []) := by
  intro es hes
  rw [stripList_inv_nil hes]
  refine ⟨[], by simp [ArgsRel], 1, fun fuel hf => ?_⟩
  obtain ⟨k, rfl, _⟩ := fuel_succ hf
  simp [interpAll]

/-- an evaluated argument -/
theorem cargs_cons_val {ok : Nat → Bool} {D : List Val} {i : Nat} {d : Val} {a : Ast} {rest : List Ast}
    {off : Nat} {s1 : Option Val} {s2 : Option (List SemFull.Arg)}
    (h1 : CIF rt d a off s1) (hj : ∀ v, s1 = some v → v.isJson = true)
    (h2 : ∀ v, s1 = some v → CArgsF rt ok D (i + 1) d rest off s2) :
    CArgsF rt ok D i d (a :: rest) off
      (match s1 with | none => none | some v => s2.map (.val v :: ·)) := by
  intro es hes
  obtain ⟨a', rest', rfl, ha', hrest'⟩ := stripList_inv_cons hes
  obtain ⟨n1, h1⟩ := h1 a' ha'
  cases s1 with
  | none =>
    refine ⟨n1 + 1, fun fuel hf => ?_⟩
    obtain ⟨k, rfl, hk⟩ := fuel_succ hf
    obtain ⟨e', ho, hg⟩ := h1 k hk
    simp only [interpAll, ho]
    exact ⟨e', rfl, hg⟩
  | some v =>
    have h2' := h2 v rfl rest' hrest'
    cases s2 with
    | none =>
      obtain ⟨n2, h2'⟩ := h2'
      refine ⟨max n1 n2 + 1, fun fuel hf => ?_⟩
      obtain ⟨k, rfl, hk⟩ := fuel_succ hf
      have e1 := h1 k (by omega)
      obtain ⟨e', ho, hg⟩ := h2' k (by omega)
      simp only [AgreesF] at e1
      simp only [interpAll, e1, ho]
      exact ⟨e', rfl, hg⟩
    | some as =>
      obtain ⟨vs, hrel, n2, h2'⟩ := h2'
      refine ⟨v :: vs, ⟨⟨rfl, hj v rfl⟩, hrel⟩, max n1 n2 + 1, fun fuel hf => ?_⟩
      obtain ⟨k, rfl, hk⟩ := fuel_succ hf
      have e1 := h1 k (by omega)
      have e2 := h2' k (by omega)
      simp only [AgreesF] at e1
      simp only [interpAll, e1, e2]

/-- an `&e` argument: not evaluated, passed as the closure -/
theorem cargs_cons_fn {ok : Nat → Bool} {D : List Val} {i : Nat} {d : Val} {o0 : Nat} {body : Ast}
    {rest : List Ast} {off : Nat} {f : Val → Option Val} {s2 : Option (List SemFull.Arg)}
    (hok : ok i = true) (hb : ∀ x ∈ D, ∀ o, CIF rt x body o (f x))
    (h2 : CArgsF rt ok D (i + 1) d rest off s2) :
    CArgsF rt ok D i d (.expref o0 body :: rest) off (s2.map (.fn f :: ·)) := by
  intro es hes
  obtain ⟨a', rest', rfl, ha', hrest'⟩ := stripList_inv_cons hes
  obtain ⟨o', body', rfl, hbody'⟩ := strip_inv_expref ha'
  have h2' := h2 rest' hrest'
  cases s2 with
  | none =>
    obtain ⟨n2, h2'⟩ := h2'
    refine ⟨n2 + 1, fun fuel hf => ?_⟩
    obtain ⟨k, rfl, hk⟩ := fuel_succ hf
    obtain ⟨e', ho, hg⟩ := h2' k hk
    have hk1 : 1 ≤ k := by
      cases k with
      | zero => simp [interpAll] at ho; subst ho; simp [EvalErr.genuine] at hg
      | succ k => omega
    obtain ⟨k', rfl, _⟩ := fuel_succ hk1
    simp only [interpAll, interp] at ho ⊢
    simp only [ho]
    exact ⟨e', rfl, hg⟩
  | some as =>
    obtain ⟨vs, hrel, n2, h2'⟩ := h2'
    refine ⟨.expref body' :: vs, ⟨⟨hok, body', rfl, fun x hx o => hb x hx o body' hbody'⟩, hrel⟩,
      n2 + 2, fun fuel hf => ?_⟩
    obtain ⟨k, rfl, hk⟩ := fuel_succ hf
    obtain ⟨k', rfl, hk'⟩ := fuel_succ hk
    have e2 := h2' (k' + 1) (by omega)
    simp only [interpAll, interp] at e2 ⊢
    simp only [e2]

/-- **the call node** -/
theorem cif_function (hrt : ∀ n, rt.get n = (SemFull.builtinOf n).map Fn.builtin)
    {d : Val} {name : String} {args0 : List Ast} {o off : Nat} {s : Option (List SemFull.Arg)}
    (hargs : CArgsF rt (SemFull.exprefParam name) (fnDomain s) 0 d args0 off s) :
    CIF rt d (.function o name args0) off (SemFull.call name s) := by
  intro a ha
  obtain ⟨o', args', rfl, hargs'⟩ := strip_inv_function ha
  have h := hargs args' hargs'
  cases s with
  | none =>
    obtain ⟨n, hn⟩ := h
    refine ⟨n + 1, fun fuel hf => ?_⟩
    obtain ⟨k, rfl, hk⟩ := fuel_succ hf
    obtain ⟨e', ho, hg⟩ := hn k hk
    simp only [interp, ho, SemFull.call]
    exact ⟨e', rfl, hg⟩
  | some as =>
    obtain ⟨vs, hrel, n1, h1⟩ := h
    cases hb : SemFull.builtinOf name with
    | none =>
      refine ⟨n1 + 1, fun fuel hf => ?_⟩
      obtain ⟨k, rfl, hk⟩ := fuel_succ hf
      have hget : rt.get name = none := by rw [hrt, hb]; rfl
      simp only [interp, h1 k hk, hget, SemFull.call, hb]
      exact ⟨_, rfl, rfl⟩
    | some b =>
      obtain ⟨n2, h2⟩ := fn_conv rt name b hb vs as hrel o'
      refine ⟨max n1 n2 + 1, fun fuel hf => ?_⟩
      obtain ⟨k, rfl, hk⟩ := fuel_succ hf
      have hget : rt.get name = some (.builtin b) := by rw [hrt, hb]; rfl
      have e2 := h2 k (by omega)
      simp only [interp, h1 k (by omega), hget, SemFull.call, hb]
      cases hap : SemFull.apply b as with
      | none =>
        rw [hap] at e2
        obtain ⟨e', ho, hg⟩ := e2
        simp only [ho]
        exact ⟨e', rfl, hg⟩
      | some v =>
        rw [hap] at e2
        obtain ⟨o2, ho⟩ := e2
        simp only [ho, AgreesF]

end fn

end JmesVerif
