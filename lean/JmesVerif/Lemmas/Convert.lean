import JmesVerif.Model.Convert
import JmesVerif.Lemmas.SerdeValue
namespace JmesVerif

theorem svToVariable_svOfNum (n : Num) (h : n.ok = true) : svToVariable (svOfNum n) = some (.num n) := by
  cases n with
  | pos n => simp [svOfNum, svToVariable, numOfInt]
  | neg i =>
    have hi : i < 0 := by simpa [Num.ok] using h
    simp [svOfNum, svToVariable, numOfInt, hi]
  | flt f =>
    have hf : f.isFinite = true := by simpa [Num.ok] using h
    simp [svOfNum, svToVariable, valOfF64, hf]

mutual
theorem generic_value : ∀ j : JValue, j.finite = true → svToVariable (svOfJValue j) = some j.toVal
  | .null, _ => rfl
  | .bool _, _ => rfl
  | .num n, h => by simpa [svOfJValue, JValue.toVal] using svToVariable_svOfNum n (by simpa [JValue.finite] using h)
  | .str _, _ => rfl
  | .arr xs, h => by
    simp only [svOfJValue, svToVariable, JValue.toVal]
    rw [generic_values xs (by simpa [JValue.finite] using h)]; rfl
  | .obj kvs, h => by
    simp only [svOfJValue, svToVariable, JValue.toVal]
    rw [generic_kvs kvs [] (by simpa [JValue.finite] using h)]; rfl
theorem generic_values : ∀ xs : List JValue, JValue.finites xs = true →
    svSeqToVariable (svOfJValues xs) = some (JValue.toVals xs)
  | [], _ => rfl
  | x :: xs, h => by
    simp only [JValue.finites, Bool.and_eq_true] at h
    simp only [svOfJValues, svSeqToVariable, generic_value x h.1, generic_values xs h.2, JValue.toVals]
    rfl
theorem generic_kvs : ∀ (kvs : List (String × JValue)) (acc : List (String × Val)), JValue.finiteKVs kvs = true →
    svMapToVariable (svOfJKVs kvs) acc = some (JValue.toKVs kvs acc)
  | [], acc, _ => rfl
  | (k, x) :: r, acc, h => by
    simp only [JValue.finiteKVs, Bool.and_eq_true] at h
    simp only [svOfJKVs, svMapToVariable, svToVariable, generic_value x h.1, JValue.toKVs]
    exact generic_kvs r _ h.2
end

mutual
theorem generic_variable : ∀ v : Val, v.isJson = true → v.finite = true → v.Sorted →
    svToVariable (svOfVal v) = some v
  | .null, _, _, _ => rfl
  | .bool _, _, _, _ => rfl
  | .num n, _, h, _ => by simpa [svOfVal] using svToVariable_svOfNum n (by simpa [Val.finite] using h)
  | .str _, _, _, _ => rfl
  | .arr xs, hj, h, hs => by
    simp only [svOfVal, svToVariable]
    rw [generic_variables xs (by simpa [Val.isJson] using hj) (by simpa [Val.finite] using h) hs]; rfl
  | .obj kvs, hj, h, hs => by
    simp only [svOfVal, svToVariable]
    rw [generic_varKVs kvs [] (by simpa [Val.isJson] using hj) (by simpa [Val.finite] using h) hs.2 hs.1
      (by intro p hp; cases hp)]
    simp
  | .expref _, hj, _, _ => by simp [Val.isJson] at hj
theorem generic_variables : ∀ xs : List Val, valsJson xs = true → Val.finites xs = true → valsSorted xs →
    svSeqToVariable (svOfVals xs) = some xs
  | [], _, _, _ => rfl
  | x :: xs, hj, h, hs => by
    simp only [valsJson, Bool.and_eq_true] at hj
    simp only [Val.finites, Bool.and_eq_true] at h
    simp only [svOfVals, svSeqToVariable, generic_variable x hj.1 h.1 hs.1, generic_variables xs hj.2 h.2 hs.2]
    rfl
theorem generic_varKVs : ∀ (kvs acc : List (String × Val)), kvsJson kvs = true → Val.finiteKVs kvs = true →
    kvsSorted kvs → KeysSorted kvs → (∀ p ∈ acc, ∀ q ∈ kvs, p.1 < q.1) →
    svMapToVariable (svOfKVs kvs) acc = some (acc ++ kvs)
  | [], acc, _, _, _, _, _ => by simp [svOfKVs, svMapToVariable]
  | (k, x) :: r, acc, hj, h, hs, hk, hacc => by
    simp only [kvsJson, Bool.and_eq_true] at hj
    simp only [Val.finiteKVs, Bool.and_eq_true] at h
    simp only [svOfKVs, svMapToVariable, svToVariable, generic_variable x hj.1 h.1 hs.1]
    rw [insertKV_append k x acc (fun p hp => hacc p hp (k, x) (by simp))]
    have hlt := keysSorted_head_lt k x r hk
    rw [generic_varKVs r (acc ++ [(k, x)]) hj.2 h.2 hs.2 (keysSorted_tail _ _ hk)]
    · simp
    · intro p hp q hq
      rcases List.mem_append.mp hp with hp | hp
      · exact hacc p hp q (by simp [hq])
      · simp at hp; subst hp; exact hlt q hq
end

/-- the inputs on which the two conversion paths are claimed to agree: JSON-representable data -/
def Input.representable : Input → Prop
  | .value j => j.finite = true
  | .lib v => v.isJson = true ∧ v.finite = true ∧ v.Sorted
  | .f32 x => x.isFinite = true
  | .f64 x => x.isFinite = true
  | _ => True

/-- **the specialised fast-path conversions produce the same value as the generic serde path** -/
theorem specialized_eq_generic (i : Input) (h : i.representable) : convSpecialized i = convGeneric i := by
  cases i with
  | value j => simp [convSpecialized, convGeneric, Input.image, generic_value j h]
  | lib v => simp [convSpecialized, convGeneric, Input.image, generic_variable v h.1 h.2.1 h.2.2]
  | string s => rfl
  | int v => rfl
  | f32 x =>
    have hx : x.isFinite = true := h
    simp [convSpecialized, convGeneric, Input.image, svToVariable, valOfF64, hx]
  | f64 x =>
    have hx : x.isFinite = true := h
    simp [convSpecialized, convGeneric, Input.image, svToVariable, valOfF64, hx]
  | bool b => rfl
  | unit => rfl

end JmesVerif
