import JmesVerif.Lemmas.ParserBasic
/-!
Fuel sufficiency.

* Lexer: `lexLoop_fuel_stable` — with `fuel ≥ |cs| + 1` the result of `Lexer.loop` no longer depends
  on the fuel, i.e. the out-of-fuel first line is never reached by `tokenize`.
* Parser: `expr_fuel_ok`, `parseTokens_no_fuel` — `8·|tokens| + 8` units of fuel always suffice.
  Proof: (1) every parser function returns a suffix (`Len`), `nud`/`led`/`expr` a strict one;
  (2) `NoFuel`: function `f` never answers `.error .fuel` when `8·|ts| + rank f ≤ fuel`, where the
  ranks make every call edge decrease (same tokens ⇒ strictly smaller rank; ≥ 1 token consumed ⇒ +8).
-/
namespace JmesVerif
open Parser

/-! ## Lexer -/

theorem takeWhile_length (p : Char → Bool) (cs : List Char) :
    (Lexer.takeWhile p cs).2.length ≤ cs.length := by
  induction cs with
  | nil => simp [Lexer.takeWhile]
  | cons c cs ih =>
    simp only [Lexer.takeWhile]
    split
    · simp only [List.length_cons]; omega
    · simp

theorem consumeInside_length (w : Char) (cs acc : List Char) (b r : List Char)
    (h : Lexer.consumeInside w cs acc = some (b, r)) : r.length ≤ cs.length := by
  fun_induction Lexer.consumeInside w cs acc <;> simp_all <;> omega

theorem ok_ite {ε α : Type} {c : Prop} [Decidable c] {a b : Except ε α} {x : α}
    (h : (if c then a else b) = .ok x) : (c ∧ a = .ok x) ∨ (¬c ∧ b = .ok x) := by
  split at h <;> simp_all

theorem lexOne_length (pos : Nat) (c : Char) (cs : List Char) (t : Option Tok) (r : List Char)
    (h : Lexer.lexOne pos c cs = .ok (t, r)) : r.length ≤ cs.length := by
  have tw := takeWhile_length
  have ci := consumeInside_length
  unfold Lexer.lexOne at h
  repeat' (replace h := ok_ite h; obtain ⟨_, h⟩ | ⟨_, h⟩ := h)
  all_goals repeat' (first | (replace h := ok_ite h; obtain ⟨_, h⟩ | ⟨_, h⟩ := h) | split at h)
  all_goals first
    | (simp at h; done)
    | (simp at h; obtain ⟨_, rfl⟩ := h; simp; done)
    | (simp at h; obtain ⟨_, rfl⟩ := h; apply tw)
    | (simp at h; obtain ⟨_, rfl⟩ := h; have := tw Lexer.isDigit; grind)
    | (simp at h; obtain ⟨_, rfl⟩ := h; apply ci; assumption)

theorem lexLoop_fuel_stable (total : Nat) : ∀ (fuel : Nat) (cs : List Char) (acc : List (Nat × Tok)),
    cs.length + 1 ≤ fuel → Lexer.loop total fuel cs acc = Lexer.loop total (fuel + 1) cs acc := by
  intro fuel
  induction fuel with
  | zero => intro cs acc h; omega
  | succ n ih =>
    intro cs acc h
    cases cs with
    | nil => simp [Lexer.loop]
    | cons c cs' =>
      rw [Lexer.loop, Lexer.loop]
      cases hl : Lexer.lexOne (total - Lexer.utf8Len (c :: cs')) c cs' with
      | error e => rfl
      | ok v =>
        obtain ⟨t, r⟩ := v
        have hr := lexOne_length _ _ _ _ _ hl
        simp only [List.length_cons] at h
        cases t with
        | none => exact ih r acc (by omega)
        | some t => exact ih r _ (by omega)

/-- hence `tokenize` never takes the out-of-fuel branch: any larger fuel gives the same answer -/
theorem lexLoop_fuel_stable' (total : Nat) (cs : List Char) (acc : List (Nat × Tok)) (k : Nat) :
    Lexer.loop total (cs.length + 1 + k) cs acc = Lexer.loop total (cs.length + 1) cs acc := by
  induction k with
  | zero => rfl
  | succ k ih => rw [← ih, ← Nat.add_assoc, ← lexLoop_fuel_stable total _ cs acc (by omega)]


/-! ## Parser: `idxLoop` -/

/-- iterations `idxLoop` can still make in state `k` when the next token is `t` -/
def idxNeed (k : Nat) : Tok → Nat
  | .number _ => 2 * (2 - k) + 2
  | .colon => 2 * (2 - k) + 1
  | _ => 1

theorem idxLoop_no_fuel : ∀ (fuel : Nat) ts off a b c k,
    idxNeed k (peekT ts) ≤ fuel → idxLoop fuel ts off a b c k ≠ .error .fuel := by
  intro fuel
  induction fuel with
  | zero => intro ts off a b c k h; cases hp : peekT ts <;> simp [idxNeed, hp] at h
  | succ n ih =>
    intro ts off a b c k h
    unfold idxLoop
    split
    · simp
    · rename_i p tok r
      simp only [peekT] at h
      split
      · simp only [idxNeed] at h
        split
        · rename_i hp
          have : idxNeed k (peekT r) ≤ n := by rw [hp]; simp [idxNeed]; omega
          grind
        · rename_i hp
          have : idxNeed k (peekT r) ≤ n := by rw [hp]; simp [idxNeed]; omega
          grind
        · simp
      · grind
      · simp only [idxNeed] at h
        split
        · simp
        · split
          · rename_i hp
            have : idxNeed (k+1) (peekT r) ≤ n := by rw [hp]; simp [idxNeed]; omega
            grind
          · rename_i hp
            have : idxNeed (k+1) (peekT r) ≤ n := by rw [hp]; simp [idxNeed]; omega
            grind
          · rename_i hp
            have : idxNeed (k+1) (peekT r) ≤ n := by rw [hp]; simp [idxNeed]; omega
            grind
          · simp
      · simp

theorem idxLoop8_no_fuel (ts off) : idxLoop 8 ts off none none none 0 ≠ .error .fuel := by
  apply idxLoop_no_fuel
  cases peekT ts <;> simp [idxNeed]


/-! ## Parser: every function returns a suffix of its input -/

theorem idxLoop_length : ∀ (fuel : Nat) ts off a b c k r ts' off',
    idxLoop fuel ts off a b c k = .ok (r, ts', off') → ts'.length + 1 ≤ ts.length := by
  intro fuel
  induction fuel with
  | zero => intro ts off a b c k r ts' off' h; simp [idxLoop] at h
  | succ n ih =>
    intro ts off a b c k r ts' off' h
    unfold idxLoop at h
    grind

/-- length facts at fuel `n` -/
structure Len (n : Nat) : Prop where
  expr : ∀ rbp ts off r ts' off', expr n rbp ts off = .ok (r, ts', off') → ts'.length + 1 ≤ ts.length
  loop : ∀ rbp h acc left ts off r ts' off',
    loop n rbp h acc left ts off = .ok (r, ts', off') → ts'.length ≤ ts.length
  nud : ∀ ts off r ts' off', nud n ts off = .ok (r, ts', off') → ts'.length + 1 ≤ ts.length
  led : ∀ left ts off r ts' off', led n left ts off = .ok (r, ts', off') → ts'.length + 1 ≤ ts.length
  parseIndex : ∀ ts off r ts' off', parseIndex n ts off = .ok (r, ts', off') → ts'.length ≤ ts.length
  projRhs : ∀ k ts off r ts' off', projRhs n k ts off = .ok (r, ts', off') → ts'.length ≤ ts.length
  parseDot : ∀ k ts off r ts' off', parseDot n k ts off = .ok (r, ts', off') → ts'.length ≤ ts.length
  multiList : ∀ ts off r ts' off', multiList n ts off = .ok (r, ts', off') → ts'.length ≤ ts.length
  parseList : ∀ paren ts off es as r ts' off',
    parseList n paren ts off es as = .ok (r, ts', off') → ts'.length ≤ ts.length
  kvps : ∀ ts off ks aks r ts' off', kvps n ts off ks aks = .ok (r, ts', off') → ts'.length ≤ ts.length
  parseFilter : ∀ lhs ts off r ts' off',
    parseFilter n lhs ts off = .ok (r, ts', off') → ts'.length ≤ ts.length
  parseFlatten : ∀ lhs ts off r ts' off',
    parseFlatten n lhs ts off = .ok (r, ts', off') → ts'.length ≤ ts.length
  wildcardValues : ∀ lhs ts off r ts' off',
    wildcardValues n lhs ts off = .ok (r, ts', off') → ts'.length ≤ ts.length
  wildcardIndex : ∀ lhs ts off r ts' off',
    wildcardIndex n lhs ts off = .ok (r, ts', off') → ts'.length ≤ ts.length

theorem len_zero : Len 0 := by
  constructor <;> intros <;> rename_i h <;> simp [expr, Parser.loop, nud, led, parseIndex, projRhs, parseDot, multiList,
    parseList, kvps, parseFilter, parseFlatten, wildcardValues, wildcardIndex] at h

theorem len_expr {n} (ih : Len n) : ∀ rbp ts off r ts' off',
    Parser.expr (n+1) rbp ts off = .ok (r, ts', off') → ts'.length + 1 ≤ ts.length := by
  intro rbp ts off r ts' off' h
  obtain ⟨h1, h2, h3, h4, h5, h6, h7, h8, h9, h10, h11, h12, h13, h14⟩ := ih
  have := idxLoop_length
  unfold Parser.expr at h
  grind

theorem len_loop {n} (ih : Len n) : ∀ rbp h acc left ts off r ts' off',
    Parser.loop (n+1) rbp h acc left ts off = .ok (r, ts', off') → ts'.length ≤ ts.length := by
  intro rbp h acc left ts off r ts' off' h
  obtain ⟨h1, h2, h3, h4, h5, h6, h7, h8, h9, h10, h11, h12, h13, h14⟩ := ih
  unfold Parser.loop at h
  split at h
  · split at h
    · split at h
      · split at h
        · simp at h
        · rename_i hp
          have := h9 _ _ _ _ _ _ _ _ hp
          split at h
          · have := h2 _ _ _ _ _ _ _ _ _ h; grind
          · have := h2 _ _ _ _ _ _ _ _ _ h; grind
      · simp at h
    · split at h
      · simp at h
      · rename_i hp
        have := h4 _ _ _ _ _ _ hp
        have := h2 _ _ _ _ _ _ _ _ _ h; grind
  · grind

theorem len_nud {n} (ih : Len n) : ∀ ts off r ts' off',
    Parser.nud (n+1) ts off = .ok (r, ts', off') → ts'.length + 1 ≤ ts.length := by
  intro ts off r ts' off' h
  obtain ⟨h1, h2, h3, h4, h5, h6, h7, h8, h9, h10, h11, h12, h13, h14⟩ := ih
  have := idxLoop_length
  unfold Parser.nud at h
  grind

theorem len_led {n} (ih : Len n) : ∀ left ts off r ts' off',
    Parser.led (n+1) left ts off = .ok (r, ts', off') → ts'.length + 1 ≤ ts.length := by
  intro left ts off r ts' off' h
  obtain ⟨h1, h2, h3, h4, h5, h6, h7, h8, h9, h10, h11, h12, h13, h14⟩ := ih
  have := idxLoop_length
  unfold Parser.led at h
  grind

theorem len_parseIndex {n} (ih : Len n) : ∀ ts off r ts' off',
    Parser.parseIndex (n+1) ts off = .ok (r, ts', off') → ts'.length ≤ ts.length := by
  intro ts off r ts' off' h
  obtain ⟨h1, h2, h3, h4, h5, h6, h7, h8, h9, h10, h11, h12, h13, h14⟩ := ih
  have := idxLoop_length
  unfold Parser.parseIndex at h
  grind

theorem len_projRhs {n} (ih : Len n) : ∀ k ts off r ts' off',
    Parser.projRhs (n+1) k ts off = .ok (r, ts', off') → ts'.length ≤ ts.length := by
  intro k ts off r ts' off' h
  obtain ⟨h1, h2, h3, h4, h5, h6, h7, h8, h9, h10, h11, h12, h13, h14⟩ := ih
  have := idxLoop_length
  unfold Parser.projRhs at h
  grind

theorem len_parseDot {n} (ih : Len n) : ∀ k ts off r ts' off',
    Parser.parseDot (n+1) k ts off = .ok (r, ts', off') → ts'.length ≤ ts.length := by
  intro k ts off r ts' off' h
  obtain ⟨h1, h2, h3, h4, h5, h6, h7, h8, h9, h10, h11, h12, h13, h14⟩ := ih
  have := idxLoop_length
  unfold Parser.parseDot at h
  grind

theorem len_multiList {n} (ih : Len n) : ∀ ts off r ts' off',
    Parser.multiList (n+1) ts off = .ok (r, ts', off') → ts'.length ≤ ts.length := by
  intro ts off r ts' off' h
  obtain ⟨h1, h2, h3, h4, h5, h6, h7, h8, h9, h10, h11, h12, h13, h14⟩ := ih
  have := idxLoop_length
  unfold Parser.multiList at h
  grind

theorem len_parseList {n} (ih : Len n) : ∀ paren ts off es as r ts' off',
    Parser.parseList (n+1) paren ts off es as = .ok (r, ts', off') → ts'.length ≤ ts.length := by
  intro paren ts off es as r ts' off' h
  obtain ⟨h1, h2, h3, h4, h5, h6, h7, h8, h9, h10, h11, h12, h13, h14⟩ := ih
  have := idxLoop_length
  unfold Parser.parseList at h
  grind

theorem len_kvps {n} (ih : Len n) : ∀ ts off ks aks r ts' off',
    Parser.kvps (n+1) ts off ks aks = .ok (r, ts', off') → ts'.length ≤ ts.length := by
  intro ts off ks aks r ts' off' h
  obtain ⟨h1, h2, h3, h4, h5, h6, h7, h8, h9, h10, h11, h12, h13, h14⟩ := ih
  unfold Parser.kvps at h
  simp only at h
  split at h
  · grind
  · rename_i hk
    split at hk
    · grind
    · grind
    · grind

theorem len_parseFilter {n} (ih : Len n) : ∀ lhs ts off r ts' off',
    Parser.parseFilter (n+1) lhs ts off = .ok (r, ts', off') → ts'.length ≤ ts.length := by
  intro lhs ts off r ts' off' h
  obtain ⟨h1, h2, h3, h4, h5, h6, h7, h8, h9, h10, h11, h12, h13, h14⟩ := ih
  have := idxLoop_length
  unfold Parser.parseFilter at h
  grind

theorem len_parseFlatten {n} (ih : Len n) : ∀ lhs ts off r ts' off',
    Parser.parseFlatten (n+1) lhs ts off = .ok (r, ts', off') → ts'.length ≤ ts.length := by
  intro lhs ts off r ts' off' h
  obtain ⟨h1, h2, h3, h4, h5, h6, h7, h8, h9, h10, h11, h12, h13, h14⟩ := ih
  have := idxLoop_length
  unfold Parser.parseFlatten at h
  grind

theorem len_wildcardValues {n} (ih : Len n) : ∀ lhs ts off r ts' off',
    Parser.wildcardValues (n+1) lhs ts off = .ok (r, ts', off') → ts'.length ≤ ts.length := by
  intro lhs ts off r ts' off' h
  obtain ⟨h1, h2, h3, h4, h5, h6, h7, h8, h9, h10, h11, h12, h13, h14⟩ := ih
  have := idxLoop_length
  unfold Parser.wildcardValues at h
  grind

theorem len_wildcardIndex {n} (ih : Len n) : ∀ lhs ts off r ts' off',
    Parser.wildcardIndex (n+1) lhs ts off = .ok (r, ts', off') → ts'.length ≤ ts.length := by
  intro lhs ts off r ts' off' h
  obtain ⟨h1, h2, h3, h4, h5, h6, h7, h8, h9, h10, h11, h12, h13, h14⟩ := ih
  have := idxLoop_length
  unfold Parser.wildcardIndex at h
  grind

theorem len_all : ∀ n, Len n := by
  intro n
  induction n with
  | zero => exact len_zero
  | succ n ih => exact ⟨len_expr ih, len_loop ih, len_nud ih, len_led ih, len_parseIndex ih, len_projRhs ih, len_parseDot ih, len_multiList ih, len_parseList ih, len_kvps ih, len_parseFilter ih, len_parseFlatten ih, len_wildcardValues ih, len_wildcardIndex ih⟩


/-! ## Parser: fuel -/

/-- no-out-of-fuel facts at fuel `n` (the constant added to `8 * ts.length` is the rank) -/
structure NoFuel (n : Nat) : Prop where
  expr : ∀ rbp ts off, 8 * ts.length + 2 ≤ n → Parser.expr n rbp ts off ≠ .error .fuel
  loop : ∀ rbp h acc left ts off, 8 * ts.length + 2 ≤ n → Parser.loop n rbp h acc left ts off ≠ .error .fuel
  nud : ∀ ts off, 8 * ts.length + 1 ≤ n → Parser.nud n ts off ≠ .error .fuel
  led : ∀ left ts off, 8 * ts.length + 1 ≤ n → Parser.led n left ts off ≠ .error .fuel
  parseIndex : ∀ ts off, 8 * ts.length + 4 ≤ n → Parser.parseIndex n ts off ≠ .error .fuel
  projRhs : ∀ k ts off, 8 * ts.length + 3 ≤ n → Parser.projRhs n k ts off ≠ .error .fuel
  parseDot : ∀ k ts off, 8 * ts.length + 3 ≤ n → Parser.parseDot n k ts off ≠ .error .fuel
  multiList : ∀ ts off, 8 * ts.length + 4 ≤ n → Parser.multiList n ts off ≠ .error .fuel
  parseList : ∀ paren ts off es as, 8 * ts.length + 3 ≤ n → Parser.parseList n paren ts off es as ≠ .error .fuel
  kvps : ∀ ts off ks aks, 8 * ts.length + 3 ≤ n → Parser.kvps n ts off ks aks ≠ .error .fuel
  parseFilter : ∀ lhs ts off, 8 * ts.length + 3 ≤ n → Parser.parseFilter n lhs ts off ≠ .error .fuel
  parseFlatten : ∀ lhs ts off, 8 * ts.length + 4 ≤ n → Parser.parseFlatten n lhs ts off ≠ .error .fuel
  wildcardValues : ∀ lhs ts off, 8 * ts.length + 4 ≤ n → Parser.wildcardValues n lhs ts off ≠ .error .fuel
  wildcardIndex : ∀ lhs ts off, 8 * ts.length + 4 ≤ n → Parser.wildcardIndex n lhs ts off ≠ .error .fuel

theorem nf_expr {n} (ih : NoFuel n) : ∀ rbp ts off,
    8 * ts.length + 2 ≤ n + 1 → Parser.expr (n+1) rbp ts off ≠ .error .fuel := by
  intro rbp ts off hf h
  obtain ⟨h1, h2, h3, h4, h5, h6, h7, h8, h9, h10, h11, h12, h13, h14⟩ := ih
  obtain ⟨l1, l2, l3, l4, l5, l6, l7, l8, l9, l10, l11, l12, l13, l14⟩ := len_all n
  have := idxLoop_length
  have := idxLoop8_no_fuel
  unfold Parser.expr at h
  grind

theorem nf_loop {n} (ih : NoFuel n) : ∀ rbp h acc left ts off,
    8 * ts.length + 2 ≤ n + 1 → Parser.loop (n+1) rbp h acc left ts off ≠ .error .fuel := by
  intro rbp h acc left ts off hf h
  obtain ⟨h1, h2, h3, h4, h5, h6, h7, h8, h9, h10, h11, h12, h13, h14⟩ := ih
  obtain ⟨l1, l2, l3, l4, l5, l6, l7, l8, l9, l10, l11, l12, l13, l14⟩ := len_all n
  have := idxLoop_length
  have := idxLoop8_no_fuel
  unfold Parser.loop at h
  split at h
  · split at h
    · simp only [List.length_cons] at hf
      split at h
      · split at h
        · rename_i hp; injection h with h; subst h; refine h9 _ _ _ _ _ ?_ hp; omega
        · rename_i hp
          have := l9 _ _ _ _ _ _ _ _ hp
          split at h
          · refine h2 _ _ _ _ _ _ ?_ h; omega
          · refine h2 _ _ _ _ _ _ ?_ h; omega
      · simp at h
    · split at h
      · rename_i hp; injection h with h; subst h; refine h4 _ _ _ ?_ hp; omega
      · rename_i hp
        have := l4 _ _ _ _ _ _ hp
        refine h2 _ _ _ _ _ _ ?_ h; omega
  · simp at h

theorem nf_nud {n} (ih : NoFuel n) : ∀ ts off,
    8 * ts.length + 1 ≤ n + 1 → Parser.nud (n+1) ts off ≠ .error .fuel := by
  intro ts off hf h
  obtain ⟨h1, h2, h3, h4, h5, h6, h7, h8, h9, h10, h11, h12, h13, h14⟩ := ih
  obtain ⟨l1, l2, l3, l4, l5, l6, l7, l8, l9, l10, l11, l12, l13, l14⟩ := len_all n
  have := idxLoop_length
  have := idxLoop8_no_fuel
  unfold Parser.nud at h
  grind

theorem nf_led {n} (ih : NoFuel n) : ∀ left ts off,
    8 * ts.length + 1 ≤ n + 1 → Parser.led (n+1) left ts off ≠ .error .fuel := by
  intro left ts off hf h
  obtain ⟨h1, h2, h3, h4, h5, h6, h7, h8, h9, h10, h11, h12, h13, h14⟩ := ih
  obtain ⟨l1, l2, l3, l4, l5, l6, l7, l8, l9, l10, l11, l12, l13, l14⟩ := len_all n
  have := idxLoop_length
  have := idxLoop8_no_fuel
  unfold Parser.led at h
  grind

theorem nf_parseIndex {n} (ih : NoFuel n) : ∀ ts off,
    8 * ts.length + 4 ≤ n + 1 → Parser.parseIndex (n+1) ts off ≠ .error .fuel := by
  intro ts off hf h
  obtain ⟨h1, h2, h3, h4, h5, h6, h7, h8, h9, h10, h11, h12, h13, h14⟩ := ih
  obtain ⟨l1, l2, l3, l4, l5, l6, l7, l8, l9, l10, l11, l12, l13, l14⟩ := len_all n
  have := idxLoop_length
  have := idxLoop8_no_fuel
  unfold Parser.parseIndex at h
  grind

theorem nf_projRhs {n} (ih : NoFuel n) : ∀ k ts off,
    8 * ts.length + 3 ≤ n + 1 → Parser.projRhs (n+1) k ts off ≠ .error .fuel := by
  intro k ts off hf h
  obtain ⟨h1, h2, h3, h4, h5, h6, h7, h8, h9, h10, h11, h12, h13, h14⟩ := ih
  obtain ⟨l1, l2, l3, l4, l5, l6, l7, l8, l9, l10, l11, l12, l13, l14⟩ := len_all n
  have := idxLoop_length
  have := idxLoop8_no_fuel
  unfold Parser.projRhs at h
  grind

theorem nf_parseDot {n} (ih : NoFuel n) : ∀ k ts off,
    8 * ts.length + 3 ≤ n + 1 → Parser.parseDot (n+1) k ts off ≠ .error .fuel := by
  intro k ts off hf h
  obtain ⟨h1, h2, h3, h4, h5, h6, h7, h8, h9, h10, h11, h12, h13, h14⟩ := ih
  obtain ⟨l1, l2, l3, l4, l5, l6, l7, l8, l9, l10, l11, l12, l13, l14⟩ := len_all n
  have := idxLoop_length
  have := idxLoop8_no_fuel
  unfold Parser.parseDot at h
  grind

theorem nf_multiList {n} (ih : NoFuel n) : ∀ ts off,
    8 * ts.length + 4 ≤ n + 1 → Parser.multiList (n+1) ts off ≠ .error .fuel := by
  intro ts off hf h
  obtain ⟨h1, h2, h3, h4, h5, h6, h7, h8, h9, h10, h11, h12, h13, h14⟩ := ih
  obtain ⟨l1, l2, l3, l4, l5, l6, l7, l8, l9, l10, l11, l12, l13, l14⟩ := len_all n
  have := idxLoop_length
  have := idxLoop8_no_fuel
  unfold Parser.multiList at h
  grind

theorem nf_parseList {n} (ih : NoFuel n) : ∀ paren ts off es as,
    8 * ts.length + 3 ≤ n + 1 → Parser.parseList (n+1) paren ts off es as ≠ .error .fuel := by
  intro paren ts off es as hf h
  obtain ⟨h1, h2, h3, h4, h5, h6, h7, h8, h9, h10, h11, h12, h13, h14⟩ := ih
  obtain ⟨l1, l2, l3, l4, l5, l6, l7, l8, l9, l10, l11, l12, l13, l14⟩ := len_all n
  have := idxLoop_length
  have := idxLoop8_no_fuel
  unfold Parser.parseList at h
  grind

theorem nf_kvps {n} (ih : NoFuel n) : ∀ ts off ks aks,
    8 * ts.length + 3 ≤ n + 1 → Parser.kvps (n+1) ts off ks aks ≠ .error .fuel := by
  intro ts off ks aks hf h
  obtain ⟨h1, h2, h3, h4, h5, h6, h7, h8, h9, h10, h11, h12, h13, h14⟩ := ih
  obtain ⟨l1, l2, l3, l4, l5, l6, l7, l8, l9, l10, l11, l12, l13, l14⟩ := len_all n
  have := idxLoop_length
  have := idxLoop8_no_fuel
  unfold Parser.kvps at h
  simp only at h
  split at h
  · grind
  · rename_i hk
    split at hk
    · grind
    · grind
    · grind

theorem nf_parseFilter {n} (ih : NoFuel n) : ∀ lhs ts off,
    8 * ts.length + 3 ≤ n + 1 → Parser.parseFilter (n+1) lhs ts off ≠ .error .fuel := by
  intro lhs ts off hf h
  obtain ⟨h1, h2, h3, h4, h5, h6, h7, h8, h9, h10, h11, h12, h13, h14⟩ := ih
  obtain ⟨l1, l2, l3, l4, l5, l6, l7, l8, l9, l10, l11, l12, l13, l14⟩ := len_all n
  have := idxLoop_length
  have := idxLoop8_no_fuel
  unfold Parser.parseFilter at h
  grind

theorem nf_parseFlatten {n} (ih : NoFuel n) : ∀ lhs ts off,
    8 * ts.length + 4 ≤ n + 1 → Parser.parseFlatten (n+1) lhs ts off ≠ .error .fuel := by
  intro lhs ts off hf h
  obtain ⟨h1, h2, h3, h4, h5, h6, h7, h8, h9, h10, h11, h12, h13, h14⟩ := ih
  obtain ⟨l1, l2, l3, l4, l5, l6, l7, l8, l9, l10, l11, l12, l13, l14⟩ := len_all n
  have := idxLoop_length
  have := idxLoop8_no_fuel
  unfold Parser.parseFlatten at h
  grind

theorem nf_wildcardValues {n} (ih : NoFuel n) : ∀ lhs ts off,
    8 * ts.length + 4 ≤ n + 1 → Parser.wildcardValues (n+1) lhs ts off ≠ .error .fuel := by
  intro lhs ts off hf h
  obtain ⟨h1, h2, h3, h4, h5, h6, h7, h8, h9, h10, h11, h12, h13, h14⟩ := ih
  obtain ⟨l1, l2, l3, l4, l5, l6, l7, l8, l9, l10, l11, l12, l13, l14⟩ := len_all n
  have := idxLoop_length
  have := idxLoop8_no_fuel
  unfold Parser.wildcardValues at h
  grind

theorem nf_wildcardIndex {n} (ih : NoFuel n) : ∀ lhs ts off,
    8 * ts.length + 4 ≤ n + 1 → Parser.wildcardIndex (n+1) lhs ts off ≠ .error .fuel := by
  intro lhs ts off hf h
  obtain ⟨h1, h2, h3, h4, h5, h6, h7, h8, h9, h10, h11, h12, h13, h14⟩ := ih
  obtain ⟨l1, l2, l3, l4, l5, l6, l7, l8, l9, l10, l11, l12, l13, l14⟩ := len_all n
  have := idxLoop_length
  have := idxLoop8_no_fuel
  unfold Parser.wildcardIndex at h
  grind

theorem noFuel_all : ∀ n, NoFuel n := by
  intro n
  induction n with
  | zero => constructor <;> intros <;> omega
  | succ n ih => exact ⟨nf_expr ih, nf_loop ih, nf_nud ih, nf_led ih, nf_parseIndex ih, nf_projRhs ih, nf_parseDot ih, nf_multiList ih, nf_parseList ih, nf_kvps ih, nf_parseFilter ih, nf_parseFlatten ih, nf_wildcardValues ih, nf_wildcardIndex ih⟩

/-- `nud` on a non-empty queue needs one unit less -/
theorem nf_nud_cons {n} (ih : NoFuel n) : ∀ ts off, ts ≠ [] →
    8 * ts.length ≤ n + 1 → Parser.nud (n+1) ts off ≠ .error .fuel := by
  intro ts off hne hf h
  obtain ⟨h1, h2, h3, h4, h5, h6, h7, h8, h9, h10, h11, h12, h13, h14⟩ := ih
  unfold Parser.nud at h
  grind

/-- The bound `8·|ts| + 1` alone is not enough on the empty queue: `expr 1` calls `nud 0`. -/
theorem expr_fuel_one_nil (rbp off : Nat) : Parser.expr 1 rbp [] off = .error .fuel := by
  simp [Parser.expr, Parser.nud]

/-- `expr` never runs out of fuel with `8·|ts| + 1` units, provided there are at least 2
(the second hypothesis only matters for `ts = []`, see `expr_fuel_one_nil`). -/
theorem expr_fuel_ok (fuel rbp : Nat) (ts : List PT) (off : Nat) (hf : 8 * ts.length + 1 ≤ fuel)
    (h2 : 2 ≤ fuel) : Parser.expr fuel rbp ts off ≠ .error .fuel := by
  cases ts with
  | nil => exact (noFuel_all fuel).expr rbp [] off (by simpa using h2)
  | cons pt r =>
    obtain ⟨n, rfl⟩ : ∃ n, fuel = n + 1 := ⟨fuel - 1, by omega⟩
    simp only [List.length_cons] at hf
    intro h
    unfold Parser.expr at h
    split at h
    · rename_i e hn
      injection h with h; subst h
      obtain ⟨m, rfl⟩ : ∃ m, n = m + 1 := ⟨n - 1, by omega⟩
      exact nf_nud_cons (noFuel_all m) _ _ (by simp) (by simp only [List.length_cons]; omega) hn
    · rename_i hn
      have := (len_all n).nud _ _ _ _ _ hn
      simp only [List.length_cons] at this
      refine (noFuel_all n).loop _ _ _ _ _ _ ?_ h
      omega

theorem expr_fuel_ok' (fuel rbp : Nat) (ts : List PT) (off : Nat) (hf : 8 * ts.length + 2 ≤ fuel) :
    Parser.expr fuel rbp ts off ≠ .error .fuel :=
  expr_fuel_ok fuel rbp ts off (by omega) (by omega)

theorem parseTokens_no_fuel (ts : List PT) : parseTokens ts ≠ .error .fuel := by
  have h := expr_fuel_ok (8 * ts.length + 8) 0 ts 0 (by omega) (by omega)
  unfold parseTokens
  split
  · rename_i e he; intro h'; injection h' with h'; subst h'; exact h he
  · split <;> simp

end JmesVerif
