import JmesVerif.Spec.Sem
import JmesVerif.Model.Interp
import JmesVerif.Props.C07
import JmesVerif.Lemmas.SemStrip
import JmesVerif.Lemmas.SemJson
import JmesVerif.Lemmas.SemConformBase
import JmesVerif.Lemmas.SemSafe
import JmesVerif.Lemmas.SemWidth
namespace JmesVerif
open Spec

/-- what a search outcome means for a core expression: a value, the invalid-slice error, or something else -/
def resultOf : ERes Val → Option (Option Val)
  | .ok (v, _) => some (some v)
  | .error (.runtime .invalidSlice _) => some none
  | .error _ => none

/-! ### core expressions have plain trees -/
mutual
theorem nud_plain : ∀ h : Nud, Sem.nudCore h = true → h.ast.plain = true
  | .at, _ => rfl
  | .field _, _ => rfl
  | .qfield _, _ => rfl
  | .call _ _, hc => by simp [Sem.nudCore] at hc
  | .lit _, _ => rfl
  | .idx _, _ => rfl
  | .paren e, hc => by simp only [Sem.nudCore] at hc; simpa [Nud.ast] using expr_plain e hc
  | .not e, hc => by simp only [Sem.nudCore] at hc; simpa [Nud.ast, Ast.plain] using expr_plain e hc
  | .mlist es, hc => by simp only [Sem.nudCore] at hc; simpa [Nud.ast, Ast.plain] using exprs_plain es hc
  | .mhash kvs, hc => by simp only [Sem.nudCore] at hc; simpa [Nud.ast, Ast.plain] using kvs_plain kvs hc
  | .wildIdx r, hc => by simp only [Sem.nudCore] at hc; simpa [Nud.ast, Ast.plain] using rhs_plain r hc
  | .star r, hc => by simp only [Sem.nudCore] at hc; simpa [Nud.ast, Ast.plain] using rhs_plain r hc
  | .flatten r, hc => by simp only [Sem.nudCore] at hc; simpa [Nud.ast, Ast.plain] using rhs_plain r hc
  | .slice _ r, hc => by simp only [Sem.nudCore] at hc; simpa [Nud.ast, Ast.plain] using rhs_plain r hc
  | .filter p r, hc => by
    simp only [Sem.nudCore, Bool.and_eq_true] at hc
    simp [Nud.ast, Ast.plain, expr_plain p hc.1, rhs_plain r hc.2]
  | .expref _, hc => by simp [Sem.nudCore] at hc
theorem led_plain : ∀ l : Led, Sem.ledCore l = true → ∀ left : Ast, left.plain = true →
    (l.ast left).plain = true
  | .dot dr, hc, left, hl => by simp only [Sem.ledCore] at hc; simp [Led.ast, Ast.plain, hl, dot_plain dr hc]
  | .index _, _, left, hl => by simp [Led.ast, Ast.plain, hl]
  | .pipe e, hc, left, hl => by simp only [Sem.ledCore] at hc; simp [Led.ast, Ast.plain, hl, expr_plain e hc]
  | .or e, hc, left, hl => by simp only [Sem.ledCore] at hc; simp [Led.ast, Ast.plain, hl, expr_plain e hc]
  | .and e, hc, left, hl => by simp only [Sem.ledCore] at hc; simp [Led.ast, Ast.plain, hl, expr_plain e hc]
  | .cmp _ e, hc, left, hl => by simp only [Sem.ledCore] at hc; simp [Led.ast, Ast.plain, hl, expr_plain e hc]
  | .wildIdxL r, hc, left, hl => by simp only [Sem.ledCore] at hc; simp [Led.ast, Ast.plain, hl, rhs_plain r hc]
  | .dotStar r, hc, left, hl => by simp only [Sem.ledCore] at hc; simp [Led.ast, Ast.plain, hl, rhs_plain r hc]
  | .flattenL r, hc, left, hl => by simp only [Sem.ledCore] at hc; simp [Led.ast, Ast.plain, hl, rhs_plain r hc]
  | .sliceL _ r, hc, left, hl => by simp only [Sem.ledCore] at hc; simp [Led.ast, Ast.plain, hl, rhs_plain r hc]
  | .filterL p r, hc, left, hl => by
    simp only [Sem.ledCore, Bool.and_eq_true] at hc
    simp [Led.ast, Ast.plain, hl, expr_plain p hc.1, rhs_plain r hc.2]
  | .callDev _, hc, _, _ => by simp [Sem.ledCore] at hc
theorem rhs_plain : ∀ r : Rhs, Sem.rhsCore r = true → r.ast.plain = true
  | .none, _ => rfl
  | .dot dr, hc => by simp only [Sem.rhsCore] at hc; simpa [Rhs.ast] using dot_plain dr hc
  | .bracket e, hc => by simp only [Sem.rhsCore] at hc; simpa [Rhs.ast] using expr_plain e hc
theorem dot_plain : ∀ dr : DotRhs, Sem.dotCore dr = true → dr.ast.plain = true
  | .mlist es, hc => by simp only [Sem.dotCore] at hc; simpa [DotRhs.ast, Ast.plain] using exprs_plain es hc
  | .expr e, hc => by simp only [Sem.dotCore] at hc; simpa [DotRhs.ast] using expr_plain e hc
theorem expr_plain : ∀ e : Expr, Sem.exprCore e = true → e.ast.plain = true
  | .mk h ls, hc => by
    simp only [Sem.exprCore, Bool.and_eq_true] at hc
    simpa [Expr.ast] using leds_plain ls hc.2 h.ast (nud_plain h hc.1)
theorem leds_plain : ∀ ls : List Led, Sem.ledsCore ls = true → ∀ left : Ast, left.plain = true →
    (ledsAst left ls).plain = true
  | [], _, left, hl => by simpa [ledsAst] using hl
  | l :: ls, hc, left, hl => by
    simp only [Sem.ledsCore, Bool.and_eq_true] at hc
    simpa [ledsAst] using leds_plain ls hc.2 _ (led_plain l hc.1 left hl)
theorem exprs_plain : ∀ es : List Expr, Sem.exprsCore es = true → plainList (exprsAst es) = true
  | [], _ => rfl
  | e :: es, hc => by
    simp only [Sem.exprsCore, Bool.and_eq_true] at hc
    simp [exprsAst, plainList, expr_plain e hc.1, exprs_plain es hc.2]
theorem kvs_plain : ∀ kvs : List (Bool × String × Expr), Sem.kvsCore kvs = true →
    plainKVs (kvsAst kvs) = true
  | [], _ => rfl
  | (_, _, e) :: r, hc => by
    simp only [Sem.kvsCore, Bool.and_eq_true] at hc
    simp [kvsAst, plainKVs, expr_plain e hc.1, kvs_plain r hc.2]
end

/-! ### the interpreter on `e.ast` converges to `Sem.expr d e` -/
section conv
variable (rt : Registry) (off : Nat)

theorem CI.congr {d : Val} {a : Ast} {s s' : Option Val} (h : CI rt d a off s) (e : s = s') :
    CI rt d a off s' := e ▸ h
theorem CA.congr {d : Val} {a : List Ast} {s s' : Option (List Val)} (h : CA rt d a off s) (e : s = s') :
    CA rt d a off s' := e ▸ h
theorem CK.congr {d : Val} {a : List (String × Ast)} {acc : List (String × Val)}
    {s s' : Option (List (String × Val))} (h : CK rt d a acc off s) (e : s = s') :
    CK rt d a acc off s' := e ▸ h

/-- a projection node: left side, then the right side on every element, nulls dropped -/
theorem ci_proj {d : Val} {lhs rhsA : Ast} {sl : Option Val} {f : Val → Option Val}
    (hl : CI rt d lhs off sl)
    (hx : ∀ xs, sl = some (.arr xs) → ∀ x ∈ xs, CI rt x rhsA off (f x)) :
    CI rt d (.projection 0 lhs rhsA) off
      (sl.bind fun v => match v with
        | .arr xs => (Sem.optMapM f xs).map (fun ys => .arr (Sem.dropNulls ys))
        | _ => some .null) := by
  refine (ci_projection rt (g := fun xs => (Sem.optMapM f xs).map Sem.dropNulls) hl
    (fun xs h => cp_each rt xs (hx xs h))).congr rt off ?_
  cases sl with
  | none => rfl
  | some v => cases v <;> simp [Option.map_map, Function.comp_def]

/-- the body of a filter projection on one element -/
theorem ci_cond_of {x : Val} {pa ra : Ast} {sp st s : Option Val}
    (hp : CI rt x pa off sp) (ht : ∀ c, sp = some c → c.truthy = true → CI rt x ra off st)
    (hs : s = sp.bind fun c => if c.truthy then st else some .null) :
    CI rt x (.condition 0 pa ra) off s := hs ▸ ci_condition rt hp ht

mutual
theorem nud_conv : ∀ h : Nud, Sem.nudCore h = true → ∀ d : Val, d.isJson = true →
    SliceSafe.nud d h → CI rt d h.ast off (Sem.nud d h)
  | .at, _, d, _, _ => ci_identity rt d 0 off
  | .field s, _, d, _, _ => ci_field rt d 0 off s
  | .qfield s, _, d, _, _ => ci_field rt d 0 off s
  | .call _ _, hc, _, _, _ => by simp [Sem.nudCore] at hc
  | .lit v, _, d, _, _ => ci_literal rt d v 0 off
  | .idx n, _, d, _, _ => ci_index rt d 0 off n
  | .expref _, hc, _, _, _ => by simp [Sem.nudCore] at hc
  | .paren e, hc, d, hd, hs => by
    simp only [Sem.nudCore] at hc; simp only [SliceSafe.nud] at hs
    simpa only [Nud.ast, Sem.nud] using expr_conv e hc d hd hs
  | .not e, hc, d, hd, hs => by
    simp only [Sem.nudCore] at hc; simp only [SliceSafe.nud] at hs
    simp only [Nud.ast, Sem.nud]
    refine (ci_not rt (expr_conv e hc d hd hs)).congr rt off ?_
    cases h : Sem.expr d e with
    | none => rfl
    | some v => simp [truthy_eq v (expr_json e hc d hd v h)]
  | .mlist es, hc, d, hd, hs => by
    simp only [Sem.nudCore] at hc; simp only [SliceSafe.nud] at hs
    simp only [Nud.ast, Sem.nud]
    exact ci_multiList rt (fun hn => exprs_conv es hc d hd (hs hn))
  | .mhash kvs, hc, d, hd, hs => by
    simp only [Sem.nudCore] at hc; simp only [SliceSafe.nud] at hs
    simp only [Nud.ast, Sem.nud]
    exact ci_multiHash rt (fun hn => kvs_conv kvs hc d hd (hs hn) [])
  | .wildIdx r, hc, d, hd, hs => by
    simp only [Sem.nudCore] at hc; simp only [SliceSafe.nud] at hs
    simp only [Nud.ast, Sem.nud]
    refine (ci_proj rt off (f := fun x => Sem.rhs x r) (ci_identity rt d 0 off) ?_).congr rt off ?_
    · intro xs hxs x hx
      simp only [Option.some.injEq] at hxs
      exact rhs_conv r hc x (arr_json.mp (hxs ▸ hd) x hx) (hs xs hxs x hx)
    · cases d <;> rfl
  | .star r, hc, d, hd, hs => by
    simp only [Sem.nudCore] at hc; simp only [SliceSafe.nud] at hs
    simp only [Nud.ast, Sem.nud]
    refine (ci_proj rt off (f := fun x => Sem.rhs x r)
      (ci_objectValues rt (ci_identity rt d 0 off)) ?_).congr rt off ?_
    · intro xs hxs x hx
      cases d with
      | obj m =>
        simp only [Option.map_some, Option.some.injEq, Val.arr.injEq] at hxs
        subst hxs
        exact rhs_conv r hc x (values_json hd x hx) (hs m rfl x hx)
      | _ => simp at hxs
    · cases d <;> rfl
  | .flatten r, hc, d, hd, hs => by
    simp only [Sem.nudCore] at hc; simp only [SliceSafe.nud] at hs
    simp only [Nud.ast, Sem.nud]
    refine (ci_proj rt off (f := fun x => Sem.rhs x r)
      (ci_flatten rt (ci_identity rt d 0 off)) ?_).congr rt off ?_
    · intro xs hxs x hx
      cases d with
      | arr ys =>
        simp only [Option.map_some, Option.some.injEq, Val.arr.injEq] at hxs
        subst hxs
        exact rhs_conv r hc x (flatten1_json hd x hx) (hs ys rfl x hx)
      | _ => simp at hxs
    · cases d <;> rfl
  | .slice h r, hc, d, hd, hs => by
    simp only [Sem.nudCore] at hc; simp only [SliceSafe.nud] at hs
    simp only [Nud.ast, Sem.nud]
    refine (ci_proj rt off (f := fun x => Sem.rhs x r)
      (ci_slice rt (fun h0 xs hxs => (hs h0 xs hxs).1)) ?_).congr rt off ?_
    · intro xs hxs x hx
      by_cases h0 : h.step = 0
      · simp [h0] at hxs
      · cases d with
        | arr ys =>
          simp only [h0, if_false, Option.some.injEq, Val.arr.injEq] at hxs
          subst hxs
          exact rhs_conv r hc x (pySlice_json hd x hx) ((hs h0 ys rfl).2 x hx)
        | _ => simp [h0] at hxs
    · by_cases h0 : h.step = 0
      · simp [h0]
      · cases d <;> simp [h0]
  | .filter p r, hc, d, hd, hs => by
    simp only [Sem.nudCore, Bool.and_eq_true] at hc; simp only [SliceSafe.nud] at hs
    simp only [Nud.ast, Sem.nud]
    refine (ci_proj rt off (f := fun x => match Sem.expr x p with
      | none => none
      | some c => if Sem.truthy c then Sem.rhs x r else some .null) (ci_identity rt d 0 off) ?_).congr rt off ?_
    rotate_left
    · cases d <;> rfl
    · intro xs hxs x hx
      simp only [Option.some.injEq] at hxs
      have hxj := arr_json.mp (hxs ▸ hd) x hx
      have hsx := hs xs hxs x hx
      refine ci_cond_of rt off (expr_conv p hc.1 x hxj hsx.1)
        (st := Sem.rhs x r) (fun c hcv ht => rhs_conv r hc.2 x hxj (hsx.2 c hcv ?_)) ?_
      · rw [← truthy_eq c (expr_json p hc.1 x hxj c hcv)]; exact ht
      · cases hcv : Sem.expr x p with
        | none => rfl
        | some c => simp [truthy_eq c (expr_json p hc.1 x hxj c hcv)]
theorem led_conv : ∀ l : Led, Sem.ledCore l = true → ∀ (left : Ast) (d : Val) (sl : Option Val),
    d.isJson = true → CI rt d left off sl →
    (∀ lv, sl = some lv → lv.isJson = true ∧ SliceSafe.led d lv l) →
    CI rt d (l.ast left) off (sl.bind fun lv => Sem.led d lv l)
  | .callDev _, hc, _, _, _, _, _, _ => by simp [Sem.ledCore] at hc
  | .dot dr, hc, left, d, sl, hd, hl, hs => by
    simp only [Sem.ledCore] at hc
    simp only [Led.ast, Sem.led]
    exact ci_subexpr rt hl (fun lv hlv => dot_conv dr hc lv (hs lv hlv).1 (by simpa [SliceSafe.led] using (hs lv hlv).2))
  | .index n, _, left, d, sl, hd, hl, hs => by
    simp only [Led.ast, Sem.led]
    exact ci_subexpr rt hl (fun lv _ => ci_index rt lv 0 off n)
  | .pipe e, hc, left, d, sl, hd, hl, hs => by
    simp only [Sem.ledCore] at hc
    simp only [Led.ast, Sem.led]
    exact ci_subexpr rt hl (fun lv hlv => expr_conv e hc lv (hs lv hlv).1 (by simpa [SliceSafe.led] using (hs lv hlv).2))
  | .or e, hc, left, d, sl, hd, hl, hs => by
    simp only [Sem.ledCore] at hc
    simp only [Led.ast, Sem.led]
    refine (ci_or rt (sr := Sem.expr d e) hl (fun lv hlv ht => expr_conv e hc d hd ?_)).congr rt off ?_
    · have := (hs lv hlv).2
      simp only [SliceSafe.led] at this
      exact this (by rw [← truthy_eq lv (hs lv hlv).1]; exact ht)
    · cases sl with
      | none => rfl
      | some lv => simp [truthy_eq lv (hs lv rfl).1]
  | .and e, hc, left, d, sl, hd, hl, hs => by
    simp only [Sem.ledCore] at hc
    simp only [Led.ast, Sem.led]
    refine (ci_and rt (sr := Sem.expr d e) hl (fun lv hlv ht => expr_conv e hc d hd ?_)).congr rt off ?_
    · have := (hs lv hlv).2
      simp only [SliceSafe.led] at this
      exact this (by rw [← truthy_eq lv (hs lv hlv).1]; exact ht)
    · cases sl with
      | none => rfl
      | some lv => simp [truthy_eq lv (hs lv rfl).1]
  | .cmp o e, hc, left, d, sl, hd, hl, hs => by
    simp only [Sem.ledCore] at hc
    simp only [Led.ast, Sem.led]
    exact ci_comparison rt hl (fun lv hlv => expr_conv e hc d hd (by simpa [SliceSafe.led] using (hs lv hlv).2))
  | .wildIdxL r, hc, left, d, sl, hd, hl, hs => by
    simp only [Sem.ledCore] at hc
    simp only [Led.ast, Sem.led]
    refine ci_proj rt off (f := fun x => Sem.rhs x r) hl ?_
    intro xs hxs x hx
    have := (hs _ hxs).2
    simp only [SliceSafe.led] at this
    exact rhs_conv r hc x (arr_json.mp (hs _ hxs).1 x hx) (this xs rfl x hx)
  | .dotStar r, hc, left, d, sl, hd, hl, hs => by
    simp only [Sem.ledCore] at hc
    simp only [Led.ast, Sem.led]
    refine (ci_proj rt off (f := fun x => Sem.rhs x r) (ci_objectValues rt hl) ?_).congr rt off ?_
    · intro xs hxs x hx
      cases sl with
      | none => simp at hxs
      | some lv =>
        cases lv with
        | obj m =>
          simp only [Option.map_some, Option.some.injEq, Val.arr.injEq] at hxs
          subst hxs
          have := (hs _ rfl).2
          simp only [SliceSafe.led] at this
          exact rhs_conv r hc x (values_json (hs _ rfl).1 x hx) (this m rfl x hx)
        | _ => simp at hxs
    · cases sl with
      | none => rfl
      | some lv => cases lv <;> rfl
  | .flattenL r, hc, left, d, sl, hd, hl, hs => by
    simp only [Sem.ledCore] at hc
    simp only [Led.ast, Sem.led]
    refine (ci_proj rt off (f := fun x => Sem.rhs x r) (ci_flatten rt hl) ?_).congr rt off ?_
    · intro xs hxs x hx
      cases sl with
      | none => simp at hxs
      | some lv =>
        cases lv with
        | arr ys =>
          simp only [Option.map_some, Option.some.injEq, Val.arr.injEq] at hxs
          subst hxs
          have := (hs _ rfl).2
          simp only [SliceSafe.led] at this
          exact rhs_conv r hc x (flatten1_json (hs _ rfl).1 x hx) (this ys rfl x hx)
        | _ => simp at hxs
    · cases sl with
      | none => rfl
      | some lv => cases lv <;> rfl
  | .sliceL h r, hc, left, d, sl, hd, hl, hs => by
    simp only [Sem.ledCore] at hc
    simp only [Led.ast, Sem.led]
    refine ci_subexpr rt hl (fun lv hlv => ?_)
    have hsafe := (hs lv hlv).2
    have hlj := (hs lv hlv).1
    simp only [SliceSafe.led] at hsafe
    refine (ci_proj rt off (f := fun x => Sem.rhs x r)
      (ci_slice rt (fun h0 xs hxs => (hsafe h0 xs hxs).1)) ?_).congr rt off ?_
    · intro xs hxs x hx
      by_cases h0 : h.step = 0
      · simp [h0] at hxs
      · cases lv with
        | arr ys =>
          simp only [h0, if_false, Option.some.injEq, Val.arr.injEq] at hxs
          subst hxs
          exact rhs_conv r hc x (pySlice_json hlj x hx) ((hsafe h0 ys rfl).2 x hx)
        | _ => simp [h0] at hxs
    · by_cases h0 : h.step = 0
      · simp [h0]
      · cases lv <;> simp [h0]
  | .filterL p r, hc, left, d, sl, hd, hl, hs => by
    simp only [Sem.ledCore, Bool.and_eq_true] at hc
    simp only [Led.ast, Sem.led]
    refine (ci_proj rt off (f := fun x => match Sem.expr x p with
      | none => none
      | some c => if Sem.truthy c then Sem.rhs x r else some .null) hl ?_).congr rt off ?_
    rotate_left
    · cases sl with
      | none => rfl
      | some lv => cases lv <;> rfl
    · intro xs hxs x hx
      have hxj := arr_json.mp (hs _ hxs).1 x hx
      have hsafe := (hs _ hxs).2
      simp only [SliceSafe.led] at hsafe
      have hsx := hsafe xs rfl x hx
      refine ci_cond_of rt off (expr_conv p hc.1 x hxj hsx.1)
        (st := Sem.rhs x r) (fun c hcv ht => rhs_conv r hc.2 x hxj (hsx.2 c hcv ?_)) ?_
      · rw [← truthy_eq c (expr_json p hc.1 x hxj c hcv)]; exact ht
      · cases hcv : Sem.expr x p with
        | none => rfl
        | some c => simp [truthy_eq c (expr_json p hc.1 x hxj c hcv)]
theorem rhs_conv : ∀ r : Rhs, Sem.rhsCore r = true → ∀ el : Val, el.isJson = true →
    SliceSafe.rhs el r → CI rt el r.ast off (Sem.rhs el r)
  | .none, _, el, _, _ => ci_identity rt el 0 off
  | .dot dr, hc, el, hel, hs => by
    simp only [Sem.rhsCore] at hc; simp only [SliceSafe.rhs] at hs
    simpa only [Rhs.ast, Sem.rhs] using dot_conv dr hc el hel hs
  | .bracket e, hc, el, hel, hs => by
    simp only [Sem.rhsCore] at hc; simp only [SliceSafe.rhs] at hs
    simpa only [Rhs.ast, Sem.rhs] using expr_conv e hc el hel hs
theorem dot_conv : ∀ dr : DotRhs, Sem.dotCore dr = true → ∀ el : Val, el.isJson = true →
    SliceSafe.dot el dr → CI rt el dr.ast off (Sem.dot el dr)
  | .mlist es, hc, el, hel, hs => by
    simp only [Sem.dotCore] at hc; simp only [SliceSafe.dot] at hs
    simp only [DotRhs.ast, Sem.dot]
    exact ci_multiList rt (fun hn => exprs_conv es hc el hel (hs hn))
  | .expr e, hc, el, hel, hs => by
    simp only [Sem.dotCore] at hc; simp only [SliceSafe.dot] at hs
    simpa only [DotRhs.ast, Sem.dot] using expr_conv e hc el hel hs
theorem expr_conv : ∀ e : Expr, Sem.exprCore e = true → ∀ d : Val, d.isJson = true →
    SliceSafe.expr d e → CI rt d e.ast off (Sem.expr d e)
  | .mk h ls, hc, d, hd, hs => by
    simp only [Sem.exprCore, Bool.and_eq_true] at hc; simp only [SliceSafe.expr] at hs
    simp only [Expr.ast]
    refine (leds_conv ls hc.2 h.ast d (Sem.nud d h) hd (nud_conv h hc.1 d hd hs.1)
      (fun lv hlv => ⟨nud_json h hc.1 d hd lv hlv, hs.2 lv hlv⟩)).congr rt off ?_
    simp only [Sem.expr]
    cases Sem.nud d h <;> rfl
theorem leds_conv : ∀ ls : List Led, Sem.ledsCore ls = true → ∀ (left : Ast) (d : Val)
    (sl : Option Val), d.isJson = true → CI rt d left off sl →
    (∀ lv, sl = some lv → lv.isJson = true ∧ SliceSafe.leds d lv ls) →
    CI rt d (ledsAst left ls) off (sl.bind fun lv => Sem.leds d lv ls)
  | [], _, left, d, sl, hd, hl, _ => by
    simp only [ledsAst]
    refine hl.congr rt off ?_
    cases sl <;> simp [Sem.leds]
  | l :: ls, hc, left, d, sl, hd, hl, hs => by
    simp only [Sem.ledsCore, Bool.and_eq_true] at hc
    simp only [ledsAst]
    have h1 := led_conv l hc.1 left d sl hd hl (fun lv hlv => ⟨(hs lv hlv).1, (hs lv hlv).2.1⟩)
    refine (leds_conv ls hc.2 (l.ast left) d _ hd h1 ?_).congr rt off ?_
    · intro v hv
      cases sl with
      | none => simp at hv
      | some lv =>
        simp only [Option.bind_some] at hv
        exact ⟨led_json l hc.1 d lv hd (hs lv rfl).1 v hv, (hs lv rfl).2.2 v hv⟩
    · cases sl with
      | none => rfl
      | some lv => simp only [Option.bind_some, Sem.leds]; cases Sem.led d lv l <;> rfl
theorem exprs_conv : ∀ es : List Expr, Sem.exprsCore es = true → ∀ d : Val, d.isJson = true →
    SliceSafe.exprs d es → CA rt d (exprsAst es) off (Sem.exprs d es)
  | [], _, d, _, _ => ca_nil rt d off
  | e :: es, hc, d, hd, hs => by
    simp only [Sem.exprsCore, Bool.and_eq_true] at hc; simp only [SliceSafe.exprs] at hs
    simp only [exprsAst]
    refine (ca_cons rt (expr_conv e hc.1 d hd hs.1) (fun _ _ => exprs_conv es hc.2 d hd hs.2)).congr rt off ?_
    simp only [Sem.exprs]
    cases Sem.expr d e <;> rfl
theorem kvs_conv : ∀ kvs : List (Bool × String × Expr), Sem.kvsCore kvs = true → ∀ d : Val,
    d.isJson = true → SliceSafe.kvs d kvs → ∀ acc : List (String × Val),
    CK rt d (kvsAst kvs) acc off (Sem.kvs' d kvs acc)
  | [], _, d, _, _, acc => ck_nil rt d acc off
  | (_, k, e) :: r, hc, d, hd, hs, acc => by
    simp only [Sem.kvsCore, Bool.and_eq_true] at hc; simp only [SliceSafe.kvs] at hs
    simp only [kvsAst]
    refine (ck_cons rt (g := fun v => Sem.kvs' d r (insertKV k v acc)) (expr_conv e hc.1 d hd hs.1)
      (fun v _ => kvs_conv r hc.2 d hd hs.2 _)).congr rt off ?_
    simp only [Sem.kvs']
    cases Sem.expr d e <;> rfl
end
end conv

/-- **Conformance, exact side condition.**  For every core expression, every tree equal to the
expression's tree up to offsets, every JSON document and initial offset: if every array a slice
is applied to while evaluating `e` on `d` has at most `i32::MAX` elements (`SliceSafe`), then
with enough fuel the interpreter returns what the semantics says. -/
theorem C01_conformance_safe (rt : Registry) (e : Expr) (hc : Sem.exprCore e = true) (a : Ast)
    (ha : a.strip = e.ast) (d : Val) (hd : d.isJson = true) (hs : SliceSafe.expr d e) (off : Nat) :
    ∃ n, ∀ fuel, n ≤ fuel → resultOf (interp rt fuel d a off) = some (Sem.expr d e) := by
  obtain ⟨n, hn⟩ := expr_conv rt off e hc d hd hs
  refine ⟨n, fun fuel hf => ?_⟩
  have h1 := hn fuel hf
  have h2 := (strip_same rt fuel).1 a d off (by rw [ha]; exact expr_plain e hc)
  rw [ha] at h2
  cases hv : Sem.expr d e with
  | none =>
    rw [hv] at h1
    obtain ⟨o, ho⟩ := h1
    rcases h2 with h2 | ⟨o1, o2, h2, _⟩
    · rw [h2, ho]; rfl
    · rw [h2]; rfl
  | some v =>
    rw [hv] at h1
    simp only [Agrees] at h1
    rcases h2 with h2 | ⟨o1, o2, _, h3⟩
    · rw [h2, h1]; rfl
    · rw [h1] at h3; cases h3

/-- **Conformance, general width form.**  `b` bounds the member count of every array and object
in the document; `e.wb b` then bounds every array that can arise during evaluation. -/
theorem C01_conformance_within (rt : Registry) (e : Expr) (hc : Sem.exprCore e = true) (a : Ast)
    (ha : a.strip = e.ast) (d : Val) (hd : d.isJson = true) (b : Nat) (hs : d.Within b)
    (hb : e.wb b ≤ 2147483647) (off : Nat) :
    ∃ n, ∀ fuel, n ≤ fuel → resultOf (interp rt fuel d a off) = some (Sem.expr d e) :=
  C01_conformance_safe rt e hc a ha d hd (expr_w e b d hs hb).1 off

/-- **C01 conformance.**  For every core expression `e` (no calls, no expression references, JSON
literals), every tree `a` equal to `e`'s tree up to offsets, every JSON document `d` and initial
`ctx.offset`: provided the computable width bound `e.wb d.width` does not exceed `i32::MAX`, the
interpreter, given enough fuel, returns exactly the value the semantics assigns — or the
invalid-slice error exactly when the semantics says so — and never any other error. -/
theorem C01_conformance (rt : Registry) (e : Expr) (hc : Sem.exprCore e = true) (a : Ast)
    (ha : a.strip = e.ast) (d : Val) (hd : d.isJson = true)
    (hb : e.wb d.width ≤ 2147483647) (off : Nat) :
    ∃ n, ∀ fuel, n ≤ fuel → resultOf (interp rt fuel d a off) = some (Sem.expr d e) :=
  C01_conformance_within rt e hc a ha d hd d.width d.within_width hb off

/-- **Conformance for flatten-free expressions**, in the originally intended form: the document
and every literal are hereditarily `Small` (arrays *and objects* have at most `i32::MAX`
members) and multi-selects have at most `i32::MAX` members. -/
theorem C01_conformance_flattenFree (rt : Registry) (e : Expr) (hc : Sem.exprCore e = true)
    (a : Ast) (ha : a.strip = e.ast) (d : Val) (hd : d.isJson = true) (hs : d.Small)
    (hlit : e.Small) (hnf : e.flattenFree = true) (off : Nat) :
    ∃ n, ∀ fuel, n ≤ fuel → resultOf (interp rt fuel d a off) = some (Sem.expr d e) :=
  C01_conformance_within rt e hc a ha d hd CAP hs (by rw [Expr.wb_cap e hlit hnf]; exact Nat.le_refl _) off

/-! ### non-vacuity -/

/-- `a[] | [::2]` on `{"a": [[1],[2,3]]}`: width 2, bound `max 2 (2*2) = 4` -/
example : (Expr.mk (.field "a") [.flattenL .none, .pipe (.mk (.slice ⟨none, none, some (some 2)⟩ .none) [])]).wb
    (Val.obj [("a", .arr [.arr [.num (.pos 1)], .arr [.num (.pos 2), .num (.pos 3)]])]).width = 4 := by
  decide

example (rt : Registry) (off : Nat) : ∃ n, ∀ fuel, n ≤ fuel →
    resultOf (interp rt fuel (Val.obj [("a", .arr [.arr [.num (.pos 1)], .arr [.num (.pos 2), .num (.pos 3)]])])
      (.subexpr 7 (.projection 1 (.flatten 1 (.field 0 "a")) (.identity 3))
        (.projection 6 (.slice 6 none none 2) (.identity 11))) off) =
    some (some (.arr [.num (.pos 1), .num (.pos 3)])) := by
  have h := C01_conformance rt
    (Expr.mk (.field "a") [.flattenL .none, .pipe (.mk (.slice ⟨none, none, some (some 2)⟩ .none) [])])
    (by decide)
    (.subexpr 7 (.projection 1 (.flatten 1 (.field 0 "a")) (.identity 3))
        (.projection 6 (.slice 6 none none 2) (.identity 11)))
    (by rfl)
    (Val.obj [("a", .arr [.arr [.num (.pos 1)], .arr [.num (.pos 2), .num (.pos 3)]])])
    (by decide) (by decide) off
  have hsem : Sem.expr (Val.obj [("a", .arr [.arr [.num (.pos 1)], .arr [.num (.pos 2), .num (.pos 3)]])])
      (Expr.mk (.field "a") [.flattenL .none, .pipe (.mk (.slice ⟨none, none, some (some 2)⟩ .none) [])]) =
      some (.arr [.num (.pos 1), .num (.pos 3)]) := by rfl
  rw [hsem] at h
  exact h

end JmesVerif

#print axioms JmesVerif.C01_conformance_safe
#print axioms JmesVerif.C01_conformance_within
#print axioms JmesVerif.C01_conformance_flattenFree
#print axioms JmesVerif.C01_conformance
