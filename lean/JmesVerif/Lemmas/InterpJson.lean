import JmesVerif.Lemmas.InterpDisc
/-!
JSON-ness (`Val.isJson`: no expression reference inside) is preserved by every data operation of the
interpreter and by every builtin that does not evaluate expression references.
-/
namespace JmesVerif

theorem valsJson_iff_ij (xs : List Val) : valsJson xs = true ↔ ∀ x ∈ xs, x.isJson = true := by
  induction xs with
  | nil => simp [valsJson]
  | cons x xs ih => simp [valsJson, ih]

theorem kvsJson_iff_ij (kvs : List (String × Val)) : kvsJson kvs = true ↔ ∀ p ∈ kvs, p.2.isJson = true := by
  induction kvs with
  | nil => simp [kvsJson]
  | cons p kvs ih => obtain ⟨k, v⟩ := p; simp [kvsJson, ih]

@[simp] theorem isJson_arr (xs : List Val) : (Val.arr xs).isJson = true ↔ ∀ x ∈ xs, x.isJson = true := by
  rw [Val.isJson, valsJson_iff_ij]
@[simp] theorem isJson_obj (kvs : List (String × Val)) :
    (Val.obj kvs).isJson = true ↔ ∀ p ∈ kvs, p.2.isJson = true := by
  rw [Val.isJson, kvsJson_iff_ij]
@[simp] theorem isJson_expref (a : Ast) : (Val.expref a).isJson = false := by rw [Val.isJson]
@[simp] theorem isJson_null : Val.null.isJson = true := by simp [Val.isJson]
@[simp] theorem isJson_bool (b : Bool) : (Val.bool b).isJson = true := by simp [Val.isJson]
@[simp] theorem isJson_num (n : Num) : (Val.num n).isJson = true := by simp [Val.isJson]
@[simp] theorem isJson_str (s : String) : (Val.str s).isJson = true := by simp [Val.isJson]

theorem lookup_mem_ij (k : String) (kvs : List (String × Val)) (v : Val) (h : Val.lookup k kvs = some v) :
    ∃ p ∈ kvs, p.2 = v := by
  induction kvs with
  | nil => simp [Val.lookup] at h
  | cons p kvs ih =>
    obtain ⟨k', v'⟩ := p
    simp only [Val.lookup] at h
    split at h
    · simp_all
    · obtain ⟨p, hp, rfl⟩ := ih h
      exact ⟨p, by simp [hp], rfl⟩

theorem getField_json (d : Val) (k : String) (hd : d.isJson = true) : (d.getField k).isJson = true := by
  unfold Val.getField
  split
  · rename_i kvs
    cases h : Val.lookup k kvs with
    | none => simp
    | some v =>
      obtain ⟨p, hp, rfl⟩ := lookup_mem_ij k kvs v h
      simp at hd ⊢
      exact hd _ _ hp
  · simp

theorem indexList_mem {α : Type} (xs : List α) (i : Int) (v : α) (h : indexList xs i = some v) : v ∈ xs := by
  unfold indexList getIndex getNegIndex at h
  split at h
  · exact List.mem_of_getElem? h
  · simp only at h
    split at h
    · exact List.mem_of_getElem? h
    · simp at h

theorem index_json_ij (xs : List Val) (i : Int) (h : ∀ x ∈ xs, x.isJson = true) :
    ((indexList xs i).getD .null).isJson = true := by
  cases hi : indexList xs i with
  | none => simp
  | some v => simpa using h v (indexList_mem xs i v hi)

theorem loopUp_mem {α : Type} (xs : List α) (b step : Int) : ∀ (fuel : Nat) (i : Int) (ys : List α),
    loopUp xs b step fuel i = .ok ys → ∀ y ∈ ys, y ∈ xs := by
  intro fuel
  induction fuel with
  | zero => intro i ys h; simp [loopUp] at h
  | succ n ih =>
    intro i ys h
    rw [loopUp] at h
    repeat' (split at h)
    all_goals (try (simp at h; done))
    · rename_i x _ r hr
      simp at h
      subst h
      intro y hy
      simp at hy
      rcases hy with rfl | hy
      · exact List.mem_of_getElem? (by assumption)
      · exact ih _ _ hr y hy
    · simp at h; subst h; simp

theorem loopDown_mem {α : Type} (xs : List α) (b step : Int) : ∀ (fuel : Nat) (i : Int) (ys : List α),
    loopDown xs b step fuel i = .ok ys → ∀ y ∈ ys, y ∈ xs := by
  intro fuel
  induction fuel with
  | zero => intro i ys h; simp [loopDown] at h
  | succ n ih =>
    intro i ys h
    rw [loopDown] at h
    repeat' (split at h)
    all_goals (try (simp at h; done))
    · rename_i x _ r hr
      simp at h
      subst h
      intro y hy
      simp at hy
      rcases hy with rfl | hy
      · exact List.mem_of_getElem? (by assumption)
      · exact ih _ _ hr y hy
    · simp at h; subst h; simp

theorem sliceList_mem {α : Type} (xs : List α) (start stop : Option Int) (step : Int) (ys : List α)
    (h : sliceList xs start stop step = .ok ys) : ∀ y ∈ ys, y ∈ xs := by
  unfold sliceList at h
  simp only at h
  repeat' (split at h)
  · simp at h; subst h; simp
  · exact loopUp_mem _ _ _ _ _ _ h
  · exact loopDown_mem _ _ _ _ _ _ h

theorem insertKV_mem {β : Type} (k : String) (v : β) (m : List (String × β)) :
    ∀ p ∈ insertKV k v m, p = (k, v) ∨ p ∈ m := by
  induction m with
  | nil => simp [insertKV]
  | cons q m ih =>
    obtain ⟨k', v'⟩ := q
    intro p hp
    simp only [insertKV] at hp
    repeat' (split at hp)
    · simp at hp ⊢; rcases hp with h | h | h <;> simp [h]
    · simp at hp ⊢; rcases hp with h | h <;> simp [h]
    · simp at hp ⊢
      rcases hp with h | h
      · simp [h]
      · rcases ih p h with h | h <;> simp [h]

theorem insertKV_json_ij (k : String) (v : Val) (m : List (String × Val)) (hv : v.isJson = true)
    (hm : ∀ p ∈ m, p.2.isJson = true) : ∀ p ∈ insertKV k v m, p.2.isJson = true := by
  intro p hp
  rcases insertKV_mem k v m p hp with rfl | h
  · exact hv
  · exact hm p h

theorem numOfF64_json (f : F64) (msg : String) (v : Val) (h : numOfF64 f msg = .ok v) : v.isJson = true := by
  unfold numOfF64 at h
  split at h <;> simp at h
  subst h; simp

theorem foldl_pick_mem_h {α : Type} (f : α → α → α) (hf : ∀ a b, f a b = a ∨ f a b = b) :
    ∀ (rest : List α) (x : α), rest.foldl f x ∈ x :: rest := by
  intro rest
  induction rest with
  | nil => simp
  | cons y rest ih =>
    intro x
    simp only [List.foldl_cons]
    have := ih (f x y)
    rcases hf x y with h | h <;> rw [h] at this ⊢ <;> simp at this ⊢ <;> rcases this with h' | h' <;> simp [h']

theorem foldMax_mem_ij (xs : List Val) (v : Val) (h : foldMax xs = some v) : v ∈ xs := by
  unfold foldMax at h
  split at h
  · simp at h
  · simp at h; subst h
    exact foldl_pick_mem_h _ (by intro a b; split <;> simp) _ _

theorem foldMin_mem_ij (xs : List Val) (v : Val) (h : foldMin xs = some v) : v ∈ xs := by
  unfold foldMin at h
  split at h
  · simp at h
  · simp at h; subst h
    exact foldl_pick_mem_h _ (by intro a b; split <;> simp) _ _

theorem foldInsert_json (kvs : List (String × Val)) : ∀ (acc : List (String × Val)),
    (∀ p ∈ kvs, p.2.isJson = true) → (∀ p ∈ acc, p.2.isJson = true) →
    ∀ p ∈ kvs.foldl (fun m (kv : String × Val) => insertKV kv.1 kv.2 m) acc, p.2.isJson = true := by
  induction kvs with
  | nil => intro acc _ h; simpa using h
  | cons q kvs ih =>
    intro acc hk ha
    simp only [List.foldl_cons]
    apply ih
    · intro p hp; exact hk p (by simp [hp])
    · exact insertKV_json_ij _ _ _ (hk q (by simp)) ha

theorem mergeObjs_json : ∀ (args : List Val) (acc : List (String × Val)),
    (∀ a ∈ args, a.isJson = true) → (∀ p ∈ acc, p.2.isJson = true) →
    ∀ p ∈ mergeObjs acc args, p.2.isJson = true := by
  intro args
  induction args with
  | nil => intro acc _ h; simpa [mergeObjs] using h
  | cons a args ih =>
    intro acc hk ha
    have hk' : ∀ a ∈ args, a.isJson = true := fun x hx => hk x (by simp [hx])
    cases a with
    | obj kvs =>
      rw [mergeObjs]
      apply ih _ hk'
      have := hk (.obj kvs) (by simp)
      simp only [isJson_obj] at this
      exact foldInsert_json kvs acc this ha
    | _ => rw [mergeObjs]; exact ih _ hk' ha; simp
      
theorem sortVals_mem (xs : List Val) (y : Val) : y ∈ sortVals xs ↔ y ∈ xs := by
  unfold sortVals; exact List.mem_mergeSort

theorem sortPairs_mem (xs : List (Val × Val)) (y : Val × Val) : y ∈ sortPairs xs ↔ y ∈ xs := by
  unfold sortPairs; exact List.mem_mergeSort

/-- a builtin that does not evaluate expression references maps JSON arguments to a JSON value -/
theorem pure_json (b : Builtin) (args : List Val) (v : Val) (ha : ∀ a ∈ args, a.isJson = true)
    (h : b.pure args = .ok v) : v.isJson = true := by
  unfold Builtin.pure at h
  split at h
  all_goals (try (exact numOfF64_json _ _ _ h))
  all_goals (try (simp at h; subst h; simp; done))
  all_goals (try (simp at ha))
  all_goals (try (simp only [Except.ok.injEq] at h; subst h))
  all_goals (try (simp; done))
  all_goals (try (simpa [sortVals_mem] using ha))
  all_goals (try (split at h <;> (first | exact numOfF64_json _ _ _ h | (simp at h; subst h; simp)); done))
  all_goals (try (simp at h; done))
  · simp; intro x k w _ hx; subst hx; simp
  · simp; intro x k hkx; exact ha k x hkx
  · cases hf : foldMax _ with
    | none => simp
    | some w => simpa using ha w (foldMax_mem_ij _ _ hf)
  · cases hf : foldMin _ with
    | none => simp
    | some w => simpa using ha w (foldMin_mem_ij _ _ hf)
  · rw [isJson_obj]; exact mergeObjs_json args [] ha (by simp)
  · cases hf : List.find? _ args with
    | none => simp
    | some w => simpa using ha w (List.mem_of_find?_eq_some hf)

theorem sortBy_mem (xs ks : List Val) : ∀ y ∈ (sortPairs (xs.zip ks)).map (·.1), y ∈ xs := by
  intro y hy
  simp only [List.mem_map] at hy
  obtain ⟨p, hp, rfl⟩ := hy
  rw [sortPairs_mem] at hp
  obtain ⟨a, b⟩ := p
  exact (List.of_mem_zip hp).1

theorem pick_mem (f : Val × Val → Val × Val → Val × Val) (hf : ∀ a b, f a b = a ∨ f a b = b)
    (x k0 : Val) (rest ks : List Val) : ((rest.zip ks).foldl f (x, k0)).1 ∈ x :: rest := by
  have := foldl_pick_mem_h f hf (rest.zip ks) (x, k0)
  generalize (rest.zip ks).foldl f (x, k0) = p at this
  obtain ⟨a, b⟩ := p
  simp only [List.mem_cons] at this ⊢
  rcases this with h | h
  · simp only [Prod.mk.injEq] at h; exact .inl h.1
  · exact .inr (List.of_mem_zip h).1

/-- `byExtreme` returns `null` or one of the elements -/
theorem byExtreme_json (rt : Registry) (n : Nat) (isMax : Bool) (xs : List Val) (a : Ast) (off : Nat)
    (v : Val) (off' : Nat) (hx : ∀ x ∈ xs, x.isJson = true)
    (h : byExtreme rt n isMax xs a off = .ok (v, off')) : v.isJson = true := by
  cases n with
  | zero => simp [byExtreme] at h
  | succ n =>
    rw [byExtreme.eq_def] at h; simp only at h
    repeat' (split at h)
    all_goals (try (simp at h; done))
    · simp at h; rw [← h.1]; simp
    all_goals
      simp only [Except.ok.injEq, Prod.mk.injEq] at h
      rw [← h.1]
      apply hx
      apply pick_mem
      intro a b
      split <;> simp

end JmesVerif
