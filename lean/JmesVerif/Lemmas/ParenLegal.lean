import JmesVerif.Lemmas.Paren
namespace JmesVerif
open Paren

/-! ### `wrap` -/

/-- `wrap` always yields a parenthesised head without applications -/
theorem wrap_shape (x : Expr) : ∃ y, wrap x = .mk (.paren y) [] := by
  unfold wrap
  split
  · exact ⟨_, rfl⟩
  · exact ⟨_, rfl⟩

theorem wrap_follow (x : Expr) : (wrap x).follow = INF := by
  obtain ⟨y, hy⟩ := wrap_shape x
  rw [hy]; simp [Expr.follow, ledsFollow, Nud.follow]

/-- a wrapped expression is legal at every power, as soon as the expression is legal at power 0 -/
theorem wrap_legal (x : Expr) (k : Nat) (h : x.Legal 0) : (wrap x).Legal k := by
  unfold wrap
  split
  · simp only [Expr.Legal, Nud.Legal, chain, callDevOk] at h ⊢
    exact h
  · simp only [Expr.Legal, Nud.Legal, chain, callDevOk]
    exact ⟨h, trivial, trivial⟩

/-! ### monotonicity of `chain` / `Legal` -/

theorem chain_mono_rbp {k k' : Nat} (hk : k' ≤ k) : ∀ (f : Nat) (ls : List Led), chain k f ls → chain k' f ls
  | _, [] => by simp [chain]
  | f, l :: ls => by
    simp only [chain]
    intro ⟨h1, h2, h3, h4⟩
    exact ⟨by omega, h2, h3, chain_mono_rbp hk _ ls h4⟩

theorem chain_mono_f {k f f' : Nat} (hf : f ≤ f') : ∀ (ls : List Led), chain k f ls → chain k f' ls
  | [] => by simp [chain]
  | l :: ls => by
    simp only [chain]
    intro ⟨h1, h2, h3, h4⟩
    exact ⟨h1, by omega, h3, h4⟩

theorem Expr.Legal_mono {k k' : Nat} (hk : k' ≤ k) : ∀ e : Expr, e.Legal k → e.Legal k'
  | .mk h ls => by
    simp only [Expr.Legal]
    intro ⟨h1, h2, h3⟩
    exact ⟨h1, chain_mono_rbp hk _ _ h2, h3⟩

/-! ### what `pLed` / `pNud` keep -/

theorem pLed_lbp (l : Led) : (pLed l).lbp = l.lbp := by
  cases l <;> simp [pLed, Led.lbp]

theorem pLed_isCallDev (l : Led) : (pLed l).isCallDev = l.isCallDev := by
  cases l <;> simp [pLed, Led.isCallDev]

theorem pNud_isBracketHead (h : Nud) : (pNud h).isBracketHead = h.isBracketHead := by
  cases h <;> simp [pNud, Nud.isBracketHead]

theorem pNud_isDotHead (h : Nud) : (pNud h).isDotHead = h.isDotHead := by
  cases h <;> simp [pNud, Nud.isDotHead]

theorem pNud_isStar (h : Nud) : (pNud h).isStar = h.isStar := by
  cases h <;> simp [pNud, Nud.isStar]

theorem pInner_headIsBracket (e : Expr) : (pInner e).headIsBracket = e.headIsBracket := by
  cases e; simp [pInner, Expr.headIsBracket, pNud_isBracketHead]

theorem pInner_headIsDot (e : Expr) : (pInner e).headIsDot = e.headIsDot := by
  cases e; simp [pInner, Expr.headIsDot, pNud_isDotHead]

theorem pDot_startsWithStar (d : DotRhs) : (pDot d).startsWithStar = d.startsWithStar := by
  cases d with
  | mlist es => simp [pDot, DotRhs.startsWithStar]
  | expr e => cases e; simp [pDot, pInner, DotRhs.startsWithStar, pNud_isStar]

theorem mem_pLeds : ∀ (ls : List Led) (l' : Led), l' ∈ pLeds ls → ∃ l ∈ ls, l' = pLed l
  | [], l' => by simp [pLeds]
  | l :: ls, l' => by
    simp only [pLeds, List.mem_cons]
    rintro (h | h)
    · exact ⟨l, Or.inl rfl, h⟩
    · obtain ⟨x, hx, hx'⟩ := mem_pLeds ls l' h
      exact ⟨x, Or.inr hx, hx'⟩

theorem pElems_ne_nil : ∀ es : List Expr, es ≠ [] → pElems es ≠ []
  | [], h => absurd rfl h
  | e :: es, _ => by simp [pElems]

theorem pArgs_ne_nil : ∀ es : List Expr, es ≠ [] → pArgs es ≠ []
  | [], h => absurd rfl h
  | e :: es, _ => by simp [pArgs]

theorem pKvs_ne_nil : ∀ kvs : List (Bool × String × Expr), kvs ≠ [] → pKvs kvs ≠ []
  | [], h => absurd rfl h
  | (q, s, e) :: r, _ => by simp [pKvs]

theorem pElems_not_starOnly : ∀ es : List Expr, isStarOnly (pElems es) = false
  | [] => by simp [pElems, isStarOnly]
  | e :: es => by
    simp only [pElems]
    obtain ⟨y, hy⟩ := wrap_shape (pExpr e)
    rw [hy]
    simp [isStarOnly]

/-! ### a parenthesised field stays one -/

mutual
theorem pExpr_isField : ∀ e : Expr, e.isField = true → (pExpr e).isField = true
  | .mk h [] => by
    intro hf
    simp only [pExpr, pSpine]
    exact pNud_isField h hf
  | .mk h (_ :: _) => by
    intro hf
    cases h <;> simp [Expr.isField] at hf
theorem pNud_isField : ∀ h : Nud, (Expr.mk h []).isField = true → (Expr.mk (pNud h) []).isField = true
  | .field _ => fun _ => by simp [pNud, Expr.isField]
  | .qfield _ => fun _ => by simp [pNud, Expr.isField]
  | .paren e => fun hf => by
    simp only [pNud, Expr.isField] at hf ⊢
    exact pExpr_isField e hf
  | .at => fun hf => by simp [Expr.isField] at hf
  | .call _ _ => fun hf => by simp [Expr.isField] at hf
  | .lit _ => fun hf => by simp [Expr.isField] at hf
  | .star _ => fun hf => by simp [Expr.isField] at hf
  | .idx _ => fun hf => by simp [Expr.isField] at hf
  | .slice _ _ => fun hf => by simp [Expr.isField] at hf
  | .wildIdx _ => fun hf => by simp [Expr.isField] at hf
  | .mlist _ => fun hf => by simp [Expr.isField] at hf
  | .flatten _ => fun hf => by simp [Expr.isField] at hf
  | .mhash _ => fun hf => by simp [Expr.isField] at hf
  | .not _ => fun hf => by simp [Expr.isField] at hf
  | .filter _ _ => fun hf => by simp [Expr.isField] at hf
  | .expref _ => fun hf => by simp [Expr.isField] at hf
end

/-! ### `follow` can only grow (operands become parenthesised, whose follow is `INF`) -/

mutual
theorem pNud_follow : ∀ h : Nud, h.follow ≤ (pNud h).follow
  | .at => Nat.le_refl _
  | .field _ => Nat.le_refl _
  | .qfield _ => Nat.le_refl _
  | .call _ _ => by simp [pNud, Nud.follow]
  | .lit _ => Nat.le_refl _
  | .star r => by simp only [pNud, Nud.follow]; exact pRhs_follow r 20
  | .idx _ => Nat.le_refl _
  | .slice _ r => by simp only [pNud, Nud.follow]; exact pRhs_follow r 20
  | .wildIdx r => by simp only [pNud, Nud.follow]; exact pRhs_follow r 20
  | .mlist _ => by simp [pNud, Nud.follow]
  | .flatten r => by simp only [pNud, Nud.follow]; exact pRhs_follow r 9
  | .mhash _ => by simp [pNud, Nud.follow]
  | .not e => by simp only [pNud, Nud.follow, wrap_follow, INF]; omega
  | .filter _ r => by simp only [pNud, Nud.follow]; exact pRhs_follow r 21
  | .paren _ => by simp [pNud, Nud.follow]
  | .expref e => by simp only [pNud, Nud.follow, wrap_follow, INF]; omega
theorem pLed_follow : ∀ l : Led, l.follow ≤ (pLed l).follow
  | .dotStar r => by simp only [pLed, Led.follow]; exact pRhs_follow r 20
  | .dot d => by simp only [pLed, Led.follow]; exact pDot_follow d 40
  | .index _ => Nat.le_refl _
  | .sliceL _ r => by simp only [pLed, Led.follow]; exact pRhs_follow r 20
  | .wildIdxL r => by simp only [pLed, Led.follow]; exact pRhs_follow r 20
  | .or e => by simp only [pLed, Led.follow, wrap_follow, INF]; omega
  | .and e => by simp only [pLed, Led.follow, wrap_follow, INF]; omega
  | .pipe e => by simp only [pLed, Led.follow, wrap_follow, INF]; omega
  | .cmp _ e => by simp only [pLed, Led.follow, wrap_follow, INF]; omega
  | .flattenL r => by simp only [pLed, Led.follow]; exact pRhs_follow r 9
  | .filterL _ r => by simp only [pLed, Led.follow]; exact pRhs_follow r 21
  | .callDev _ => by simp [pLed, Led.follow]
theorem pRhs_follow : ∀ (r : Rhs) (k : Nat), r.follow k ≤ (pRhs r).follow k
  | .none, _ => Nat.le_refl _
  | .dot d, k => by simp only [pRhs, Rhs.follow]; exact pDot_follow d k
  | .bracket e, k => by
    simp only [pRhs, Rhs.follow]
    have := pInner_follow e
    omega
theorem pDot_follow : ∀ (d : DotRhs) (k : Nat), d.follow k ≤ (pDot d).follow k
  | .mlist _, _ => by simp [pDot, DotRhs.follow]
  | .expr e, k => by
    simp only [pDot, DotRhs.follow]
    have := pInner_follow e
    omega
theorem pInner_follow : ∀ e : Expr, e.follow ≤ (pInner e).follow
  | .mk h ls => by
    simp only [pInner, Expr.follow]
    exact pLeds_follow ls _ _ (pNud_follow h)
theorem pLeds_follow : ∀ (ls : List Led) (f f' : Nat), f ≤ f' → ledsFollow f ls ≤ ledsFollow f' (pLeds ls)
  | [], _, _, hf => by simpa [pLeds, ledsFollow] using hf
  | l :: ls, _, _, _ => by
    simp only [pLeds, ledsFollow]
    exact pLeds_follow ls _ _ (pLed_follow l)
end

/-! ### `callDevOk` is kept -/

theorem pLeds_noCallDev (ls : List Led) (h : ∀ l' ∈ ls, l'.isCallDev = false) :
    ∀ l' ∈ pLeds ls, l'.isCallDev = false := by
  intro l' hl'
  obtain ⟨l, hl, rfl⟩ := mem_pLeds ls l' hl'
  rw [pLed_isCallDev]; exact h l hl

theorem pInner_callDevOk (h : Nud) : ∀ ls : List Led, callDevOk h ls → callDevOk (pNud h) (pLeds ls)
  | [] => by simp [pLeds, callDevOk]
  | l :: ls => by
    simp only [pLeds, callDevOk, pLed_isCallDev]
    intro ⟨h1, h2⟩
    refine ⟨fun hc => ?_, pLeds_noCallDev ls h2⟩
    have h1 := h1 hc
    cases h <;> simp only [pNud] at h1 ⊢ <;> try exact h1.elim
    exact pExpr_isField _ h1

/-! ### legality -/

mutual
theorem pExpr_legal : ∀ (e : Expr) (k : Nat), e.Legal k → (pExpr e).Legal k
  | .mk h ls, k => by
    simp only [Expr.Legal, pExpr]
    intro ⟨h1, h2, h3⟩
    refine pSpine_legal (.mk (pNud h) []) ls k h.follow ?_ h2 ?_
    · simp only [Expr.Legal, chain, callDevOk]
      exact ⟨pNud_legal h h1, trivial, trivial⟩
    · intro y hy
      cases ls with
      | nil => simp [callDevOk]
      | cons l ls =>
        simp only [callDevOk] at h3 ⊢
        refine ⟨fun hc => ?_, h3.2⟩
        have h3 := h3.1 hc
        cases h with
        | paren e =>
          simp only [pNud, wrap] at hy
          simp only [Expr.mk.injEq, Nud.paren.injEq, and_true] at hy
          subst hy
          exact pExpr_isField e h3
        | _ => exact h3.elim
/-- `y` is what ends up inside the parentheses of the wrapped accumulated operand -/
theorem pSpine_legal : ∀ (cur : Expr) (ls : List Led) (k f : Nat), cur.Legal k → chain k f ls →
    (∀ y, wrap cur = .mk (.paren y) [] → callDevOk (.paren y) ls) → (pSpine cur ls).Legal k
  | cur, [], k, f => by
    intro hc _ _
    simpa [pSpine] using hc
  | cur, l :: ls, k, f => by
    intro hc hch hcd
    simp only [pSpine]
    obtain ⟨y, hy⟩ := wrap_shape cur
    have hw : (wrap cur).Legal k := wrap_legal cur k (Expr.Legal_mono (Nat.zero_le k) cur hc)
    rw [hy] at hw ⊢
    have hcd := hcd y hy
    simp only [chain] at hch
    obtain ⟨c1, _, c3, c4⟩ := hch
    simp only [callDevOk] at hcd
    simp only [List.nil_append]
    refine pSpine_legal _ ls k l.follow ?_ c4 ?_
    · simp only [Expr.Legal, chain, callDevOk, Nud.Legal, pLed_lbp, pLed_isCallDev] at hw ⊢
      refine ⟨hw.1, ⟨c1, ?_, pLed_legal l c3, trivial⟩, hcd.1, ?_⟩
      · cases l <;> simp [Led.lbp, Nud.follow, INF]
      · intro l' hl'; cases hl'
    · intro y' hy'
      cases ls with
      | nil => simp [callDevOk]
      | cons l2 ls2 =>
        simp only [callDevOk]
        refine ⟨fun hc2 => ?_, fun l' hl' => hcd.2 l' (List.mem_cons_of_mem _ hl')⟩
        have := hcd.2 l2 (List.mem_cons_self ..)
        rw [this] at hc2; cases hc2
theorem pInner_legal : ∀ (e : Expr) (k : Nat), e.Legal k → (pInner e).Legal k
  | .mk h ls, k => by
    simp only [Expr.Legal, pInner]
    intro ⟨h1, h2, h3⟩
    exact ⟨pNud_legal h h1, pLeds_chain ls k _ _ (pNud_follow h) h2, pInner_callDevOk h ls h3⟩
theorem pLeds_chain : ∀ (ls : List Led) (k f f' : Nat), f ≤ f' → chain k f ls → chain k f' (pLeds ls)
  | [], _, _, _, _ => by simp [pLeds, chain]
  | l :: ls, k, f, f', hf => by
    simp only [pLeds, chain, pLed_lbp]
    intro ⟨c1, c2, c3, c4⟩
    exact ⟨c1, by omega, pLed_legal l c3, pLeds_chain ls k _ _ (pLed_follow l) c4⟩
theorem pNud_legal : ∀ h : Nud, h.Legal → (pNud h).Legal
  | .at => fun h => h
  | .field _ => fun h => h
  | .qfield _ => fun h => h
  | .call _ args => by simp only [pNud, Nud.Legal]; exact pArgs_legal args
  | .lit _ => fun h => h
  | .star r => by simp only [pNud, Nud.Legal]; exact pRhs_legal r 20
  | .idx _ => fun h => h
  | .slice _ r => by simp only [pNud, Nud.Legal]; exact pRhs_legal r 20
  | .wildIdx r => by simp only [pNud, Nud.Legal]; exact pRhs_legal r 20
  | .mlist es => by
    simp only [pNud, Nud.Legal]
    intro ⟨h1, _, h3⟩
    exact ⟨pElems_ne_nil es h1, pElems_not_starOnly es, pElems_legal es h3⟩
  | .flatten r => by simp only [pNud, Nud.Legal]; exact pRhs_legal r 9
  | .mhash kvs => by
    simp only [pNud, Nud.Legal]
    intro ⟨h1, h2⟩
    exact ⟨pKvs_ne_nil kvs h1, pKvs_legal kvs h2⟩
  | .not e => by
    simp only [pNud, Nud.Legal]
    intro h
    exact wrap_legal _ _ (pExpr_legal e 0 (Expr.Legal_mono (Nat.zero_le _) e h))
  | .filter p r => by
    simp only [pNud, Nud.Legal]
    intro ⟨h1, h2⟩
    exact ⟨wrap_legal _ _ (pExpr_legal p 0 h1), pRhs_legal r 21 h2⟩
  | .paren e => by simp only [pNud, Nud.Legal]; exact pExpr_legal e 0
  | .expref e => by
    simp only [pNud, Nud.Legal]
    intro h
    exact wrap_legal _ _ (pExpr_legal e 0 h)
theorem pLed_legal : ∀ l : Led, l.Legal → (pLed l).Legal
  | .dotStar r => by simp only [pLed, Led.Legal]; exact pRhs_legal r 20
  | .dot d => by
    simp only [pLed, Led.Legal, pDot_startsWithStar]
    intro ⟨h1, h2⟩
    exact ⟨pDot_legal d 40 h1, h2⟩
  | .index _ => fun h => h
  | .sliceL _ r => by simp only [pLed, Led.Legal]; exact pRhs_legal r 20
  | .wildIdxL r => by simp only [pLed, Led.Legal]; exact pRhs_legal r 20
  | .or e => by
    simp only [pLed, Led.Legal]
    intro h
    exact wrap_legal _ _ (pExpr_legal e 0 (Expr.Legal_mono (Nat.zero_le _) e h))
  | .and e => by
    simp only [pLed, Led.Legal]
    intro h
    exact wrap_legal _ _ (pExpr_legal e 0 (Expr.Legal_mono (Nat.zero_le _) e h))
  | .pipe e => by
    simp only [pLed, Led.Legal]
    intro h
    exact wrap_legal _ _ (pExpr_legal e 0 (Expr.Legal_mono (Nat.zero_le _) e h))
  | .cmp _ e => by
    simp only [pLed, Led.Legal]
    intro h
    exact wrap_legal _ _ (pExpr_legal e 0 (Expr.Legal_mono (Nat.zero_le _) e h))
  | .flattenL r => by simp only [pLed, Led.Legal]; exact pRhs_legal r 9
  | .filterL p r => by
    simp only [pLed, Led.Legal]
    intro ⟨h1, h2⟩
    exact ⟨wrap_legal _ _ (pExpr_legal p 0 h1), pRhs_legal r 21 h2⟩
  | .callDev args => by simp only [pLed, Led.Legal]; exact pArgs_legal args
theorem pRhs_legal : ∀ (r : Rhs) (k : Nat), r.Legal k → (pRhs r).Legal k
  | .none, _ => fun h => h
  | .dot d, k => by simp only [pRhs, Rhs.Legal]; exact pDot_legal d k
  | .bracket e, k => by
    simp only [pRhs, Rhs.Legal, pInner_headIsBracket]
    intro ⟨h1, h2⟩
    exact ⟨pInner_legal e k h1, h2⟩
theorem pDot_legal : ∀ (d : DotRhs) (k : Nat), d.Legal k → (pDot d).Legal k
  | .mlist es, _ => by
    simp only [pDot, DotRhs.Legal]
    intro ⟨h1, h2⟩
    exact ⟨pElems_ne_nil es h1, pElems_legal es h2⟩
  | .expr e, k => by
    simp only [pDot, DotRhs.Legal, pInner_headIsDot]
    intro ⟨h1, h2⟩
    exact ⟨pInner_legal e k h1, h2⟩
theorem pElems_legal : ∀ es : List Expr, argsLegal es → argsLegal (pElems es)
  | [] => fun h => h
  | e :: es => by
    simp only [pElems, argsLegal]
    intro ⟨h1, h2⟩
    exact ⟨wrap_legal _ _ (pExpr_legal e 0 h1), pElems_legal es h2⟩
theorem pArgs_legal : ∀ es : List Expr, argsLegal es → argsLegal (pArgs es)
  | [] => fun h => h
  | e :: es => by
    simp only [pArgs, argsLegal]
    intro ⟨h1, h2⟩
    refine ⟨?_, pArgs_legal es h2⟩
    split
    · exact pInner_legal e 0 h1
    · exact wrap_legal _ _ (pExpr_legal e 0 h1)
theorem pKvs_legal : ∀ kvs : List (Bool × String × Expr), kvsLegal kvs → kvsLegal (pKvs kvs)
  | [] => fun h => h
  | (q, s, e) :: r => by
    simp only [pKvs, kvsLegal]
    intro ⟨h1, h2⟩
    exact ⟨wrap_legal _ _ (pExpr_legal e 0 h1), pKvs_legal r h2⟩
end

/-- adding the implied parentheses turns a legal tree into a legal tree -/
theorem parenthesize_legal (e : Expr) (h : e.Legal 0) : (parenthesize e).Legal 0 :=
  pExpr_legal e 0 h

/-- …and the parentheses are real: the tree the rules assign is unchanged -/
theorem parenthesize_ast (e : Expr) : (parenthesize e).ast = e.ast := pExpr_ast e

end JmesVerif

#print axioms JmesVerif.parenthesize_ast
#print axioms JmesVerif.parenthesize_legal
