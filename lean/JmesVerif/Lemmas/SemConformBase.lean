import JmesVerif.Spec.Sem
import JmesVerif.Model.Interp
import JmesVerif.Props.C07
/-
One convergence rule per `interpret` arm: if the sub-evaluations converge (for all large enough
fuel) to what the semantics says, so does the node.
-/
namespace JmesVerif
open Spec

/-- the outcome `r` is the value `s` (with the offset unchanged), or the invalid-slice error -/
def Agrees {α : Type} (r : ERes α) (s : Option α) (off : Nat) : Prop :=
  match s with
  | some v => r = .ok (v, off)
  | none => ∃ o, r = .error (.runtime .invalidSlice o)

variable (rt : Registry)

def CI (d : Val) (a : Ast) (off : Nat) (s : Option Val) : Prop :=
  ∃ n, ∀ fuel, n ≤ fuel → Agrees (interp rt fuel d a off) s off
def CP (xs : List Val) (a : Ast) (off : Nat) (s : Option (List Val)) : Prop :=
  ∃ n, ∀ fuel, n ≤ fuel → Agrees (projectEach rt fuel xs a off) s off
def CA (d : Val) (es : List Ast) (off : Nat) (s : Option (List Val)) : Prop :=
  ∃ n, ∀ fuel, n ≤ fuel → Agrees (interpAll rt fuel d es off) s off
def CK (d : Val) (kvs : List (String × Ast)) (acc : List (String × Val)) (off : Nat)
    (s : Option (List (String × Val))) : Prop :=
  ∃ n, ∀ fuel, n ≤ fuel → Agrees (interpKVs rt fuel d kvs acc off) s off

theorem fuel_succ {n fuel : Nat} (h : n + 1 ≤ fuel) : ∃ k, fuel = k + 1 ∧ n ≤ k :=
  ⟨fuel - 1, by omega, by omega⟩

theorem ci_identity (d : Val) (o off : Nat) : CI rt d (.identity o) off (some d) := by
  refine ⟨1, fun fuel hf => ?_⟩
  obtain ⟨k, rfl, _⟩ := fuel_succ hf
  simp [interp, Agrees]

theorem ci_field (d : Val) (o off : Nat) (s : String) : CI rt d (.field o s) off (some (Sem.field d s)) := by
  refine ⟨1, fun fuel hf => ?_⟩
  obtain ⟨k, rfl, _⟩ := fuel_succ hf
  cases d <;> simp [interp, Agrees, Val.getField, Sem.field]

theorem ci_literal (d v : Val) (o off : Nat) : CI rt d (.literal o v) off (some v) := by
  refine ⟨1, fun fuel hf => ?_⟩
  obtain ⟨k, rfl, _⟩ := fuel_succ hf
  simp [interp, Agrees]

theorem ci_index (d : Val) (o off : Nat) (i : Int) : CI rt d (.index o i) off (some (Sem.index d i)) := by
  refine ⟨1, fun fuel hf => ?_⟩
  obtain ⟨k, rfl, _⟩ := fuel_succ hf
  cases d <;> simp [interp, Agrees, Sem.index, C07_index_eq_python]

theorem ci_subexpr {d : Val} {l r : Ast} {o off : Nat} {sl : Option Val} {g : Val → Option Val}
    (hl : CI rt d l off sl) (hr : ∀ lv, sl = some lv → CI rt lv r off (g lv)) :
    CI rt d (.subexpr o l r) off (sl.bind g) := by
  obtain ⟨n1, h1⟩ := hl
  cases sl with
  | none =>
    refine ⟨n1 + 1, fun fuel hf => ?_⟩
    obtain ⟨k, rfl, hk⟩ := fuel_succ hf
    obtain ⟨o', ho⟩ := h1 k hk
    simp only [interp, ho]
    exact ⟨o', rfl⟩
  | some lv =>
    obtain ⟨n2, h2⟩ := hr lv rfl
    refine ⟨max n1 n2 + 1, fun fuel hf => ?_⟩
    obtain ⟨k, rfl, hk⟩ := fuel_succ hf
    have e1 := h1 k (by omega)
    have e2 := h2 k (by omega)
    simp only [Agrees] at e1
    simp only [interp, e1, Option.bind_some]
    exact e2

theorem truthy_eq : ∀ v : Val, v.isJson = true → v.truthy = Sem.truthy v
  | .null, _ => rfl
  | .bool b, _ => by cases b <;> rfl
  | .num _, _ => rfl
  | .str s, _ => by simp [Val.truthy, Sem.truthy, Sem.isFalse]
  | .arr xs, _ => by cases xs <;> simp [Val.truthy, Sem.truthy, Sem.isFalse]
  | .obj kvs, _ => by cases kvs <;> simp [Val.truthy, Sem.truthy, Sem.isFalse]
  | .expref _, h => by simp [Val.isJson] at h

theorem ci_or {d : Val} {l r : Ast} {o off : Nat} {sl sr : Option Val}
    (hl : CI rt d l off sl) (hr : ∀ lv, sl = some lv → lv.truthy = false → CI rt d r off sr) :
    CI rt d (.or o l r) off (sl.bind fun lv => if lv.truthy then some lv else sr) := by
  obtain ⟨n1, h1⟩ := hl
  cases sl with
  | none =>
    refine ⟨n1 + 1, fun fuel hf => ?_⟩
    obtain ⟨k, rfl, hk⟩ := fuel_succ hf
    obtain ⟨o', ho⟩ := h1 k hk
    simp only [interp, ho]
    exact ⟨o', rfl⟩
  | some lv =>
    by_cases ht : lv.truthy = true
    · refine ⟨n1 + 1, fun fuel hf => ?_⟩
      obtain ⟨k, rfl, hk⟩ := fuel_succ hf
      have e1 := h1 k hk
      simp only [Agrees] at e1
      simp [interp, e1, ht, Agrees]
    · obtain ⟨n2, h2⟩ := hr lv rfl (by simpa using ht)
      refine ⟨max n1 n2 + 1, fun fuel hf => ?_⟩
      obtain ⟨k, rfl, hk⟩ := fuel_succ hf
      have e1 := h1 k (by omega)
      have e2 := h2 k (by omega)
      simp only [Agrees] at e1
      simp only [interp, e1, Option.bind_some, ht]
      exact e2

theorem ci_and {d : Val} {l r : Ast} {o off : Nat} {sl sr : Option Val}
    (hl : CI rt d l off sl) (hr : ∀ lv, sl = some lv → lv.truthy = true → CI rt d r off sr) :
    CI rt d (.and o l r) off (sl.bind fun lv => if !lv.truthy then some lv else sr) := by
  obtain ⟨n1, h1⟩ := hl
  cases sl with
  | none =>
    refine ⟨n1 + 1, fun fuel hf => ?_⟩
    obtain ⟨k, rfl, hk⟩ := fuel_succ hf
    obtain ⟨o', ho⟩ := h1 k hk
    simp only [interp, ho]
    exact ⟨o', rfl⟩
  | some lv =>
    by_cases ht : lv.truthy = true
    · obtain ⟨n2, h2⟩ := hr lv rfl ht
      refine ⟨max n1 n2 + 1, fun fuel hf => ?_⟩
      obtain ⟨k, rfl, hk⟩ := fuel_succ hf
      have e1 := h1 k (by omega)
      have e2 := h2 k (by omega)
      simp only [Agrees] at e1
      simp only [interp, e1, Option.bind_some, ht]
      exact e2
    · refine ⟨n1 + 1, fun fuel hf => ?_⟩
      obtain ⟨k, rfl, hk⟩ := fuel_succ hf
      have e1 := h1 k hk
      simp only [Agrees] at e1
      simp [interp, e1, ht, Agrees]

theorem ci_not {d : Val} {a : Ast} {o off : Nat} {s : Option Val}
    (h : CI rt d a off s) : CI rt d (.not o a) off (s.map fun v => .bool (!v.truthy)) := by
  obtain ⟨n1, h1⟩ := h
  refine ⟨n1 + 1, fun fuel hf => ?_⟩
  obtain ⟨k, rfl, hk⟩ := fuel_succ hf
  have e1 := h1 k hk
  cases s with
  | none => obtain ⟨o', ho⟩ := e1; simp only [interp, ho]; exact ⟨o', rfl⟩
  | some v => simp only [Agrees] at e1; simp [interp, e1, Agrees]

theorem ci_condition {d : Val} {p t : Ast} {o off : Nat} {sp st : Option Val}
    (hp : CI rt d p off sp) (ht : ∀ c, sp = some c → c.truthy = true → CI rt d t off st) :
    CI rt d (.condition o p t) off (sp.bind fun c => if c.truthy then st else some .null) := by
  obtain ⟨n1, h1⟩ := hp
  cases sp with
  | none =>
    refine ⟨n1 + 1, fun fuel hf => ?_⟩
    obtain ⟨k, rfl, hk⟩ := fuel_succ hf
    obtain ⟨o', ho⟩ := h1 k hk
    simp only [interp, ho]
    exact ⟨o', rfl⟩
  | some c =>
    by_cases hc : c.truthy = true
    · obtain ⟨n2, h2⟩ := ht c rfl hc
      refine ⟨max n1 n2 + 1, fun fuel hf => ?_⟩
      obtain ⟨k, rfl, hk⟩ := fuel_succ hf
      have e1 := h1 k (by omega)
      have e2 := h2 k (by omega)
      simp only [Agrees] at e1
      simp only [interp, e1, Option.bind_some, hc]
      exact e2
    · refine ⟨n1 + 1, fun fuel hf => ?_⟩
      obtain ⟨k, rfl, hk⟩ := fuel_succ hf
      have e1 := h1 k hk
      simp only [Agrees] at e1
      simp [interp, e1, hc, Agrees]

theorem ci_comparison {d : Val} {l r : Ast} {o off : Nat} {c : Cmp} {sl sr : Option Val}
    (hl : CI rt d l off sl) (hr : ∀ lv, sl = some lv → CI rt d r off sr) :
    CI rt d (.comparison o c l r) off (sl.bind fun lv => sr.map fun rv => Sem.cmpVal c lv rv) := by
  obtain ⟨n1, h1⟩ := hl
  cases sl with
  | none =>
    refine ⟨n1 + 1, fun fuel hf => ?_⟩
    obtain ⟨k, rfl, hk⟩ := fuel_succ hf
    obtain ⟨o', ho⟩ := h1 k hk
    simp only [interp, ho]
    exact ⟨o', rfl⟩
  | some lv =>
    obtain ⟨n2, h2⟩ := hr lv rfl
    refine ⟨max n1 n2 + 1, fun fuel hf => ?_⟩
    obtain ⟨k, rfl, hk⟩ := fuel_succ hf
    have e1 := h1 k (by omega)
    have e2 := h2 k (by omega)
    simp only [Agrees] at e1
    cases sr with
    | none => obtain ⟨o', ho⟩ := e2; simp only [interp, e1, ho]; exact ⟨o', rfl⟩
    | some rv =>
      simp only [Agrees] at e2
      simp only [interp, e1, e2, Option.bind_some, Option.map_some, Agrees, Sem.cmpVal]
      cases Val.compare c lv rv <;> rfl

theorem values_eq (kvs : List (String × Val)) : (kvs.map fun (_, v) => v) = Sem.values kvs := by
  induction kvs with
  | nil => rfl
  | cons kv r ih => obtain ⟨k, v⟩ := kv; simp [Sem.values]

theorem ci_objectValues {d : Val} {a : Ast} {o off : Nat} {s : Option Val}
    (h : CI rt d a off s) :
    CI rt d (.objectValues o a) off
      (s.map fun v => match v with | .obj kvs => .arr (Sem.values kvs) | _ => .null) := by
  obtain ⟨n1, h1⟩ := h
  refine ⟨n1 + 1, fun fuel hf => ?_⟩
  obtain ⟨k, rfl, hk⟩ := fuel_succ hf
  have e1 := h1 k hk
  cases s with
  | none => obtain ⟨o', ho⟩ := e1; simp only [interp, ho]; exact ⟨o', rfl⟩
  | some v =>
    simp only [Agrees] at e1
    cases v <;> simp [interp, e1, Agrees, values_eq]

theorem ci_flatten {d : Val} {a : Ast} {o off : Nat} {s : Option Val}
    (h : CI rt d a off s) :
    CI rt d (.flatten o a) off
      (s.map fun v => match v with | .arr xs => .arr (Sem.flatten1 xs) | _ => .null) := by
  obtain ⟨n1, h1⟩ := h
  refine ⟨n1 + 1, fun fuel hf => ?_⟩
  obtain ⟨k, rfl, hk⟩ := fuel_succ hf
  have e1 := h1 k hk
  cases s with
  | none => obtain ⟨o', ho⟩ := e1; simp only [interp, ho]; exact ⟨o', rfl⟩
  | some v =>
    simp only [Agrees] at e1
    cases v with
    | arr xs =>
      simp only [interp, e1, Agrees, Option.map_some]
      clear e1 h1
      congr 3
      induction xs with
      | nil => rfl
      | cons x r ih => cases x <;> simp [Sem.flatten1, List.flatMap_cons, ih]
    | _ => simp [interp, e1, Agrees]

theorem ci_projection {d : Val} {l r : Ast} {o off : Nat} {sl : Option Val}
    {g : List Val → Option (List Val)}
    (hl : CI rt d l off sl) (hr : ∀ xs, sl = some (.arr xs) → CP rt xs r off (g xs)) :
    CI rt d (.projection o l r) off
      (sl.bind fun v => match v with | .arr xs => (g xs).map .arr | _ => some .null) := by
  obtain ⟨n1, h1⟩ := hl
  cases sl with
  | none =>
    refine ⟨n1 + 1, fun fuel hf => ?_⟩
    obtain ⟨k, rfl, hk⟩ := fuel_succ hf
    obtain ⟨o', ho⟩ := h1 k hk
    simp only [interp, ho]
    exact ⟨o', rfl⟩
  | some lv =>
    cases lv with
    | arr xs =>
      obtain ⟨n2, h2⟩ := hr xs rfl
      refine ⟨max n1 n2 + 1, fun fuel hf => ?_⟩
      obtain ⟨k, rfl, hk⟩ := fuel_succ hf
      have e1 := h1 k (by omega)
      have e2 := h2 k (by omega)
      simp only [Agrees] at e1
      cases hg : g xs with
      | none => rw [hg] at e2; obtain ⟨o', ho⟩ := e2; simp only [interp, e1, ho, Option.bind_some, hg]; exact ⟨o', rfl⟩
      | some ys => rw [hg] at e2; simp only [Agrees] at e2; simp [interp, e1, e2, hg, Agrees]
    | _ =>
      refine ⟨n1 + 1, fun fuel hf => ?_⟩
      obtain ⟨k, rfl, hk⟩ := fuel_succ hf
      have e1 := h1 k hk
      simp only [Agrees] at e1
      simp [interp, e1, Agrees]

theorem cp_each {r : Ast} {off : Nat} {f : Val → Option Val} :
    ∀ xs : List Val, (∀ x ∈ xs, CI rt x r off (f x)) →
      CP rt xs r off ((Sem.optMapM f xs).map Sem.dropNulls)
  | [], _ => by
    refine ⟨1, fun fuel hf => ?_⟩
    obtain ⟨k, rfl, hk⟩ := fuel_succ hf
    simp [projectEach, Agrees, Sem.optMapM, Sem.dropNulls]
  | x :: rest, h => by
    obtain ⟨n1, h1⟩ := h x (by simp)
    cases hfx : f x with
    | none =>
      refine ⟨n1 + 1, fun fuel hf => ?_⟩
      obtain ⟨k, rfl, hk⟩ := fuel_succ hf
      have e1 := h1 k hk
      rw [hfx] at e1
      obtain ⟨o', ho⟩ := e1
      simp only [projectEach, ho, Sem.optMapM, hfx, Option.map_none]
      exact ⟨o', rfl⟩
    | some v =>
      obtain ⟨n2, h2⟩ := cp_each rest (fun y hy => h y (by simp [hy]))
      refine ⟨max n1 n2 + 1, fun fuel hf => ?_⟩
      obtain ⟨k, rfl, hk⟩ := fuel_succ hf
      have e1 := h1 k (by omega)
      have e2 := h2 k (by omega)
      rw [hfx] at e1
      simp only [Agrees] at e1
      cases hm : Sem.optMapM f rest with
      | none =>
        rw [hm] at e2; obtain ⟨o', ho⟩ := e2
        simp only [projectEach, e1, ho, Sem.optMapM, hfx, hm, Option.map_none]
        exact ⟨o', rfl⟩
      | some ys =>
        rw [hm] at e2; simp only [Option.map_some, Agrees] at e2
        simp only [projectEach, e1, e2, Sem.optMapM, hfx, hm, Option.map_some, Agrees]
        cases v <;> simp [Sem.dropNulls, Val.isNull]

theorem ci_multiList {d : Val} {es : List Ast} {o off : Nat} {s : Option (List Val)}
    (h : d.isNull = false → CA rt d es off s) :
    CI rt d (.multiList o es) off (if d.isNull then some .null else s.map .arr) := by
  by_cases hn : d.isNull = true
  · refine ⟨1, fun fuel hf => ?_⟩
    obtain ⟨k, rfl, hk⟩ := fuel_succ hf
    simp [interp, hn, Agrees]
  · obtain ⟨n1, h1⟩ := h (by simpa using hn)
    refine ⟨n1 + 1, fun fuel hf => ?_⟩
    obtain ⟨k, rfl, hk⟩ := fuel_succ hf
    have e1 := h1 k hk
    cases s with
    | none => obtain ⟨o', ho⟩ := e1; simp only [interp, hn, ho]; exact ⟨o', rfl⟩
    | some vs => simp only [Agrees] at e1; simp [interp, hn, e1, Agrees]

theorem ci_multiHash {d : Val} {kvs : List (String × Ast)} {o off : Nat}
    {s : Option (List (String × Val))}
    (h : d.isNull = false → CK rt d kvs [] off s) :
    CI rt d (.multiHash o kvs) off (if d.isNull then some .null else s.map .obj) := by
  by_cases hn : d.isNull = true
  · refine ⟨1, fun fuel hf => ?_⟩
    obtain ⟨k, rfl, hk⟩ := fuel_succ hf
    simp [interp, hn, Agrees]
  · obtain ⟨n1, h1⟩ := h (by simpa using hn)
    refine ⟨n1 + 1, fun fuel hf => ?_⟩
    obtain ⟨k, rfl, hk⟩ := fuel_succ hf
    have e1 := h1 k hk
    cases s with
    | none => obtain ⟨o', ho⟩ := e1; simp only [interp, hn, ho]; exact ⟨o', rfl⟩
    | some vs => simp only [Agrees] at e1; simp [interp, hn, e1, Agrees]

theorem ci_slice {d : Val} {o off : Nat} {a b : Option Int} {step : Int}
    (hlen : step ≠ 0 → ∀ xs, d = .arr xs → (xs.length : Int) ≤ I32_MAX) :
    CI rt d (.slice o a b step) off
      (if step = 0 then none else
        match d with
        | .arr xs => some (.arr (pySlice xs a b step))
        | _ => some .null) := by
  refine ⟨1, fun fuel hf => ?_⟩
  obtain ⟨k, rfl, hk⟩ := fuel_succ hf
  by_cases hs : step = 0
  · cases d <;> simp [interp, hs, Agrees]
  · cases d with
    | arr xs =>
      have := C07_slice_eq_python xs a b step hs (hlen hs xs rfl)
      simp [interp, hs, Agrees, this]
    | _ => simp [interp, hs, Agrees]

theorem ca_nil (d : Val) (off : Nat) : CA rt d [] off (some []) := by
  refine ⟨1, fun fuel hf => ?_⟩
  obtain ⟨k, rfl, hk⟩ := fuel_succ hf
  simp [interpAll, Agrees]

theorem ca_cons {d : Val} {a : Ast} {rest : List Ast} {off : Nat} {s1 : Option Val}
    {s2 : Option (List Val)}
    (h1 : CI rt d a off s1) (h2 : ∀ v, s1 = some v → CA rt d rest off s2) :
    CA rt d (a :: rest) off (s1.bind fun v => s2.map (v :: ·)) := by
  obtain ⟨n1, h1⟩ := h1
  cases s1 with
  | none =>
    refine ⟨n1 + 1, fun fuel hf => ?_⟩
    obtain ⟨k, rfl, hk⟩ := fuel_succ hf
    obtain ⟨o', ho⟩ := h1 k hk
    simp only [interpAll, ho]
    exact ⟨o', rfl⟩
  | some v =>
    obtain ⟨n2, h2⟩ := h2 v rfl
    refine ⟨max n1 n2 + 1, fun fuel hf => ?_⟩
    obtain ⟨k, rfl, hk⟩ := fuel_succ hf
    have e1 := h1 k (by omega)
    have e2 := h2 k (by omega)
    simp only [Agrees] at e1
    cases s2 with
    | none => obtain ⟨o', ho⟩ := e2; simp only [interpAll, e1, ho]; exact ⟨o', rfl⟩
    | some vs => simp only [Agrees] at e2; simp [interpAll, e1, e2, Agrees]

theorem ck_nil (d : Val) (acc : List (String × Val)) (off : Nat) : CK rt d [] acc off (some acc) := by
  refine ⟨1, fun fuel hf => ?_⟩
  obtain ⟨k, rfl, hk⟩ := fuel_succ hf
  simp [interpKVs, Agrees]

theorem ck_cons {d : Val} {k : String} {a : Ast} {rest : List (String × Ast)}
    {acc : List (String × Val)} {off : Nat} {s1 : Option Val}
    {g : Val → Option (List (String × Val))}
    (h1 : CI rt d a off s1) (h2 : ∀ v, s1 = some v → CK rt d rest (insertKV k v acc) off (g v)) :
    CK rt d ((k, a) :: rest) acc off (s1.bind g) := by
  obtain ⟨n1, h1⟩ := h1
  cases s1 with
  | none =>
    refine ⟨n1 + 1, fun fuel hf => ?_⟩
    obtain ⟨k, rfl, hk⟩ := fuel_succ hf
    obtain ⟨o', ho⟩ := h1 k hk
    simp only [interpKVs, ho]
    exact ⟨o', rfl⟩
  | some v =>
    obtain ⟨n2, h2⟩ := h2 v rfl
    refine ⟨max n1 n2 + 1, fun fuel hf => ?_⟩
    obtain ⟨k, rfl, hk⟩ := fuel_succ hf
    have e1 := h1 k (by omega)
    have e2 := h2 k (by omega)
    simp only [Agrees] at e1
    simp only [interpKVs, e1, Option.bind_some]
    exact e2

end JmesVerif
