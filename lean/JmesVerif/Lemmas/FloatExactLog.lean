import JmesVerif.Lemmas.FloatExactNum
/-!
# `JsonPrint.ilog10` is the decimal logarithm (floor) on the range of finite doubles

The printer model estimates `⌊log10 q⌋` from `⌊log2 q⌋ · 30103 / 100000` and corrects the estimate by at
most eight steps in each direction.  For `-1074 ≤ ⌊log2 q⌋ ≤ 1023` (every non-zero finite double) the
estimate is within that window (checked for each of the 2098 binary exponents by kernel evaluation on
natural numbers), hence `10^(ilog10 q) ≤ q < 10^(ilog10 q + 1)`.
-/
namespace JmesVerif
namespace FloatExact
open F64

def le10_2 (a b : Int) : Bool := decide (10 ^ a.toNat * 2 ^ (-b).toNat ≤ 2 ^ b.toNat * 10 ^ (-a).toNat)
def le2_10 (b a : Int) : Bool := decide (2 ^ b.toNat * 10 ^ (-a).toNat ≤ 10 ^ a.toNat * 2 ^ (-b).toNat)

/-- the estimate for binary exponent `i - 1074` is within the correction window -/
def estOk (i : Nat) : Bool :=
  let L : Int := (i : Int) - 1074
  let est : Int := (L * 30103) / 100000
  le10_2 (est - 8) L && le2_10 (L + 1) (est + 9)

theorem estOk_all : (List.range 2098).all estOk = true := by decide +kernel

theorem p10_split (a : Int) :
    JsonPrint.pow10 a * ((10 ^ (-a).toNat : Nat) : Rat) = ((10 ^ a.toNat : Nat) : Rat) := by
  by_cases h : 0 ≤ a
  · obtain ⟨n, rfl⟩ := Int.eq_ofNat_of_zero_le h
    have : (-(n : Int)).toNat = 0 := by omega
    rw [this, p10_natCast]; simp
  · obtain ⟨n, hn⟩ : ∃ n : Nat, a = -(n : Int) := ⟨(-a).toNat, by omega⟩
    subst hn
    have h1 : (-(n : Int)).toNat = 0 := by omega
    have h2 : (- -(n : Int)).toNat = n := by omega
    rw [h1, h2, ← p10_natCast, p10_neg_mul]; simp

theorem pow2_split (a : Int) :
    pow2 a * ((2 ^ (-a).toNat : Nat) : Rat) = ((2 ^ a.toNat : Nat) : Rat) := by
  by_cases h : 0 ≤ a
  · obtain ⟨n, rfl⟩ := Int.eq_ofNat_of_zero_le h
    have : (-(n : Int)).toNat = 0 := by omega
    rw [this, pow2_natCast]; simp
  · obtain ⟨n, hn⟩ : ∃ n : Nat, a = -(n : Int) := ⟨(-a).toNat, by omega⟩
    subst hn
    have h1 : (-(n : Int)).toNat = 0 := by omega
    have h2 : (- -(n : Int)).toNat = n := by omega
    rw [h1, h2, ← pow2_natCast, ← pow2_add, Int.add_left_neg, pow2_zero]; simp

theorem natCast_pow_pos (b n : Nat) (hb : 0 < b) : (0 : Rat) < ((b ^ n : Nat) : Rat) := by
  have : 0 < b ^ n := Nat.pow_pos hb
  exact_mod_cast this

theorem p10_le_pow2_of {a b : Int} (h : le10_2 a b = true) : JsonPrint.pow10 a ≤ pow2 b := by
  simp only [le10_2, decide_eq_true_eq] at h
  have h' : ((10 ^ a.toNat * 2 ^ (-b).toNat : Nat) : Rat) ≤ ((2 ^ b.toNat * 10 ^ (-a).toNat : Nat) : Rat) := by
    exact_mod_cast h
  rw [Rat.natCast_mul, Rat.natCast_mul, ← p10_split a, ← pow2_split b] at h'
  have p1 := natCast_pow_pos 10 (-a).toNat (by decide)
  have p2 := natCast_pow_pos 2 (-b).toNat (by decide)
  apply Rat.le_of_mul_le_mul_right (c := ((10 ^ (-a).toNat : Nat) : Rat) * ((2 ^ (-b).toNat : Nat) : Rat)) _
    (Rat.mul_pos p1 p2)
  grind

theorem pow2_le_p10_of {a b : Int} (h : le2_10 b a = true) : pow2 b ≤ JsonPrint.pow10 a := by
  simp only [le2_10, decide_eq_true_eq] at h
  have h' : ((2 ^ b.toNat * 10 ^ (-a).toNat : Nat) : Rat) ≤ ((10 ^ a.toNat * 2 ^ (-b).toNat : Nat) : Rat) := by
    exact_mod_cast h
  rw [Rat.natCast_mul, Rat.natCast_mul, ← p10_split a, ← pow2_split b] at h'
  have p1 := natCast_pow_pos 10 (-a).toNat (by decide)
  have p2 := natCast_pow_pos 2 (-b).toNat (by decide)
  apply Rat.le_of_mul_le_mul_right (c := ((10 ^ (-a).toNat : Nat) : Rat) * ((2 ^ (-b).toNat : Nat) : Rat)) _
    (Rat.mul_pos p1 p2)
  grind

/-- the estimate window, for every binary exponent of a finite double -/
theorem est_window {L : Int} (h1 : -1074 ≤ L) (h2 : L ≤ 1023) :
    JsonPrint.pow10 (L * 30103 / 100000 - 8) ≤ pow2 L ∧
    pow2 (L + 1) ≤ JsonPrint.pow10 (L * 30103 / 100000 + 9) := by
  have hall := estOk_all
  rw [List.all_eq_true] at hall
  have := hall (L + 1074).toNat (by rw [List.mem_range]; omega)
  have hL : (((L + 1074).toNat : Nat) : Int) - 1074 = L := by omega
  simp only [estOk, hL, Bool.and_eq_true] at this
  exact ⟨p10_le_pow2_of this.1, pow2_le_p10_of this.2⟩

theorem down_spec (q : Rat) : ∀ (fuel : Nat) (e : Int),
    JsonPrint.ilog10.down q fuel e ≤ e ∧ e - fuel ≤ JsonPrint.ilog10.down q fuel e ∧
    (JsonPrint.pow10 (JsonPrint.ilog10.down q fuel e) ≤ q ∨ JsonPrint.ilog10.down q fuel e = e - fuel) ∧
    (JsonPrint.ilog10.down q fuel e < e → q < JsonPrint.pow10 (JsonPrint.ilog10.down q fuel e + 1)) := by
  intro fuel
  induction fuel with
  | zero => intro e; simp [JsonPrint.ilog10.down]
  | succ n ih =>
    intro e
    rw [JsonPrint.ilog10.down]
    split
    · rename_i hlt
      obtain ⟨a, b, c, d⟩ := ih (e - 1)
      refine ⟨by omega, by omega, ?_, ?_⟩
      · rcases c with c | c
        · exact Or.inl c
        · right; omega
      · intro _
        by_cases hr : JsonPrint.ilog10.down q n (e - 1) < e - 1
        · exact d hr
        · have : JsonPrint.ilog10.down q n (e - 1) + 1 = e := by omega
          rw [this]; exact hlt
    · rename_i hge
      refine ⟨by omega, by omega, Or.inl (by grind), fun h => absurd h (by omega)⟩

theorem up_spec (q : Rat) : ∀ (fuel : Nat) (e : Int), JsonPrint.pow10 e ≤ q →
    JsonPrint.pow10 (JsonPrint.ilog10.up q fuel e) ≤ q ∧ e ≤ JsonPrint.ilog10.up q fuel e ∧
    (q < JsonPrint.pow10 (JsonPrint.ilog10.up q fuel e + 1) ∨ JsonPrint.ilog10.up q fuel e = e + fuel) := by
  intro fuel
  induction fuel with
  | zero => intro e h; simp [JsonPrint.ilog10.up, h]
  | succ n ih =>
    intro e h
    rw [JsonPrint.ilog10.up]
    split
    · rename_i hle
      obtain ⟨a, b, c⟩ := ih (e + 1) hle
      refine ⟨a, by omega, ?_⟩
      rcases c with c | c
      · exact Or.inl c
      · right; omega
    · rename_i hlt
      exact ⟨h, by omega, Or.inl (by grind)⟩

/-- **`ilog10` is `⌊log10 q⌋`** for every positive rational in the binary range of finite doubles -/
theorem ilog10_spec {q : Rat} (hq : 0 < q) (h1 : -1074 ≤ ilog2 q) (h2 : ilog2 q ≤ 1023) :
    JsonPrint.pow10 (JsonPrint.ilog10 q) ≤ q ∧ q < JsonPrint.pow10 (JsonPrint.ilog10 q + 1) := by
  obtain ⟨l1, l2⟩ := ilog2_spec hq
  obtain ⟨w1, w2⟩ := est_window h1 h2
  unfold JsonPrint.ilog10
  generalize ilog2 q * 30103 / 100000 = est at *
  simp only
  obtain ⟨a, b, c, d⟩ := down_spec q 8 est
  have hlo : JsonPrint.pow10 (JsonPrint.ilog10.down q 8 est) ≤ q := by
    rcases c with c | c
    · exact c
    · have c' : JsonPrint.ilog10.down q 8 est = est - 8 := by omega
      rw [c']; grind
  obtain ⟨u1, u2, u3⟩ := up_spec q 8 _ hlo
  refine ⟨u1, ?_⟩
  rcases u3 with u3 | u3
  · exact u3
  · by_cases hd : JsonPrint.ilog10.down q 8 est < est
    · have x := d hd
      have y := p10_le_p10 (a := JsonPrint.ilog10.down q 8 est + 1)
        (b := JsonPrint.ilog10.up q 8 (JsonPrint.ilog10.down q 8 est)) (by omega)
      grind
    · have : JsonPrint.ilog10.up q 8 (JsonPrint.ilog10.down q 8 est) + 1 = est + 9 := by omega
      rw [this]; grind

end FloatExact
end JmesVerif

#print axioms JmesVerif.FloatExact.ilog10_spec
