import JmesVerif.Spec.SemFull
import JmesVerif.Model.Interp
import JmesVerif.Props.C07
import JmesVerif.Lemmas.SemConformBase
/-
Convergence rules for the full language, one per `interpret` arm, in the form needed when the tree
contains calls: offsets matter there (a call sets `ctx.offset`, errors record it), so instead of
comparing `a` with `a.strip` afterwards, every rule speaks about *all trees with the same
stripped form* at once (`CIF rt d a0 off s`: every `a` with `a.strip = a0.strip`, given enough fuel,
evaluates to what the semantics says, `none` standing for any genuine `JmespathError`).
-/
namespace JmesVerif
open Spec

/-- a `JmespathError` the real code can return (not a panic, not the model's fuel exhaustion) -/
def EvalErr.genuine : EvalErr → Bool
  | .runtime _ _ => true
  | .internal _ => true
  | _ => false

/-- the outcome `r` is the value `s` (offset unchanged), or — for `none` — a genuine error -/
def AgreesF {α : Type} (r : ERes α) (s : Option α) (off : Nat) : Prop :=
  match s with
  | some v => r = .ok (v, off)
  | none => ∃ e, r = .error e ∧ e.genuine = true

/-! ### inversion of `strip` -/
theorem strip_inv_comparison {a : Ast} {o : Nat} {c : Cmp} {l r : Ast}
    (h : a.strip = (Ast.comparison o c l r).strip) :
    ∃ o' l' r', a = .comparison o' c l' r' ∧ l'.strip = l.strip ∧ r'.strip = r.strip := by
  cases a <;> simp [Ast.strip] at h
  obtain ⟨rfl, h1, h2⟩ := h; exact ⟨_, _, _, rfl, h1, h2⟩
theorem strip_inv_condition {a : Ast} {o : Nat} {l r : Ast}
    (h : a.strip = (Ast.condition o l r).strip) :
    ∃ o' l' r', a = .condition o' l' r' ∧ l'.strip = l.strip ∧ r'.strip = r.strip := by
  cases a <;> simp [Ast.strip] at h
  obtain ⟨h1, h2⟩ := h; exact ⟨_, _, _, rfl, h1, h2⟩
theorem strip_inv_identity {a : Ast} {o : Nat} (h : a.strip = (Ast.identity o).strip) :
    ∃ o', a = .identity o' := by
  cases a <;> simp [Ast.strip] at h
  exact ⟨_, rfl⟩
theorem strip_inv_expref {a : Ast} {o : Nat} {b : Ast} (h : a.strip = (Ast.expref o b).strip) :
    ∃ o' b', a = .expref o' b' ∧ b'.strip = b.strip := by
  cases a <;> simp [Ast.strip] at h
  exact ⟨_, _, rfl, h⟩
theorem strip_inv_flatten {a : Ast} {o : Nat} {b : Ast} (h : a.strip = (Ast.flatten o b).strip) :
    ∃ o' b', a = .flatten o' b' ∧ b'.strip = b.strip := by
  cases a <;> simp [Ast.strip] at h
  exact ⟨_, _, rfl, h⟩
theorem strip_inv_function {a : Ast} {o : Nat} {name : String} {args : List Ast}
    (h : a.strip = (Ast.function o name args).strip) :
    ∃ o' args', a = .function o' name args' ∧ stripList args' = stripList args := by
  cases a <;> simp [Ast.strip] at h
  obtain ⟨rfl, h⟩ := h; exact ⟨_, _, rfl, h⟩
theorem strip_inv_field {a : Ast} {o : Nat} {name : String} (h : a.strip = (Ast.field o name).strip) :
    ∃ o', a = .field o' name := by
  cases a <;> simp [Ast.strip] at h
  subst h; exact ⟨_, rfl⟩
theorem strip_inv_index {a : Ast} {o : Nat} {i : Int} (h : a.strip = (Ast.index o i).strip) :
    ∃ o', a = .index o' i := by
  cases a <;> simp [Ast.strip] at h
  subst h; exact ⟨_, rfl⟩
theorem strip_inv_literal {a : Ast} {o : Nat} {v : Val} (h : a.strip = (Ast.literal o v).strip) :
    ∃ o', a = .literal o' v := by
  cases a <;> simp [Ast.strip] at h
  subst h; exact ⟨_, rfl⟩
theorem strip_inv_multiList {a : Ast} {o : Nat} {es : List Ast} (h : a.strip = (Ast.multiList o es).strip) :
    ∃ o' es', a = .multiList o' es' ∧ stripList es' = stripList es := by
  cases a <;> simp [Ast.strip] at h
  exact ⟨_, _, rfl, h⟩
theorem strip_inv_multiHash {a : Ast} {o : Nat} {kvs : List (String × Ast)}
    (h : a.strip = (Ast.multiHash o kvs).strip) :
    ∃ o' kvs', a = .multiHash o' kvs' ∧ stripKVs kvs' = stripKVs kvs := by
  cases a <;> simp [Ast.strip] at h
  exact ⟨_, _, rfl, h⟩
theorem strip_inv_not {a : Ast} {o : Nat} {b : Ast} (h : a.strip = (Ast.not o b).strip) :
    ∃ o' b', a = .not o' b' ∧ b'.strip = b.strip := by
  cases a <;> simp [Ast.strip] at h
  exact ⟨_, _, rfl, h⟩
theorem strip_inv_projection {a : Ast} {o : Nat} {l r : Ast}
    (h : a.strip = (Ast.projection o l r).strip) :
    ∃ o' l' r', a = .projection o' l' r' ∧ l'.strip = l.strip ∧ r'.strip = r.strip := by
  cases a <;> simp [Ast.strip] at h
  obtain ⟨h1, h2⟩ := h; exact ⟨_, _, _, rfl, h1, h2⟩
theorem strip_inv_objectValues {a : Ast} {o : Nat} {b : Ast} (h : a.strip = (Ast.objectValues o b).strip) :
    ∃ o' b', a = .objectValues o' b' ∧ b'.strip = b.strip := by
  cases a <;> simp [Ast.strip] at h
  exact ⟨_, _, rfl, h⟩
theorem strip_inv_and {a : Ast} {o : Nat} {l r : Ast} (h : a.strip = (Ast.and o l r).strip) :
    ∃ o' l' r', a = .and o' l' r' ∧ l'.strip = l.strip ∧ r'.strip = r.strip := by
  cases a <;> simp [Ast.strip] at h
  obtain ⟨h1, h2⟩ := h; exact ⟨_, _, _, rfl, h1, h2⟩
theorem strip_inv_or {a : Ast} {o : Nat} {l r : Ast} (h : a.strip = (Ast.or o l r).strip) :
    ∃ o' l' r', a = .or o' l' r' ∧ l'.strip = l.strip ∧ r'.strip = r.strip := by
  cases a <;> simp [Ast.strip] at h
  obtain ⟨h1, h2⟩ := h; exact ⟨_, _, _, rfl, h1, h2⟩
theorem strip_inv_slice {a : Ast} {o : Nat} {x y : Option Int} {z : Int}
    (h : a.strip = (Ast.slice o x y z).strip) : ∃ o', a = .slice o' x y z := by
  cases a <;> simp [Ast.strip] at h
  obtain ⟨rfl, rfl, rfl⟩ := h; exact ⟨_, rfl⟩
theorem strip_inv_subexpr {a : Ast} {o : Nat} {l r : Ast} (h : a.strip = (Ast.subexpr o l r).strip) :
    ∃ o' l' r', a = .subexpr o' l' r' ∧ l'.strip = l.strip ∧ r'.strip = r.strip := by
  cases a <;> simp [Ast.strip] at h
  obtain ⟨h1, h2⟩ := h; exact ⟨_, _, _, rfl, h1, h2⟩
theorem stripList_inv_nil {es : List Ast} (h : stripList es = stripList []) : es = [] := by
  cases es <;> simp [stripList] at h ⊢
theorem stripList_inv_cons {es : List Ast} {a : Ast} {rest : List Ast}
    (h : stripList es = stripList (a :: rest)) :
    ∃ a' rest', es = a' :: rest' ∧ a'.strip = a.strip ∧ stripList rest' = stripList rest := by
  cases es <;> simp [stripList] at h
  exact ⟨_, _, rfl, h.1, h.2⟩
theorem stripKVs_inv_nil {kvs : List (String × Ast)} (h : stripKVs kvs = stripKVs []) : kvs = [] := by
  cases kvs with
  | nil => rfl
  | cons p r => obtain ⟨k, a⟩ := p; simp [stripKVs] at h
theorem stripKVs_inv_cons {kvs : List (String × Ast)} {k : String} {a : Ast} {rest : List (String × Ast)}
    (h : stripKVs kvs = stripKVs ((k, a) :: rest)) :
    ∃ a' rest', kvs = (k, a') :: rest' ∧ a'.strip = a.strip ∧ stripKVs rest' = stripKVs rest := by
  cases kvs with
  | nil => simp [stripKVs] at h
  | cons p r =>
    obtain ⟨k', a'⟩ := p
    simp [stripKVs] at h
    obtain ⟨⟨rfl, h1⟩, h2⟩ := h
    exact ⟨_, _, rfl, h1, h2⟩

/-! ### convergence, for every tree with the given stripped form -/
section rules
variable (rt : Registry)

def CIF (d : Val) (a0 : Ast) (off : Nat) (s : Option Val) : Prop :=
  ∀ a, a.strip = a0.strip → ∃ n, ∀ fuel, n ≤ fuel → AgreesF (interp rt fuel d a off) s off
def CPF (xs : List Val) (a0 : Ast) (off : Nat) (s : Option (List Val)) : Prop :=
  ∀ a, a.strip = a0.strip → ∃ n, ∀ fuel, n ≤ fuel → AgreesF (projectEach rt fuel xs a off) s off
def CAF (d : Val) (es0 : List Ast) (off : Nat) (s : Option (List Val)) : Prop :=
  ∀ es, stripList es = stripList es0 → ∃ n, ∀ fuel, n ≤ fuel → AgreesF (interpAll rt fuel d es off) s off
def CKF (d : Val) (kvs0 : List (String × Ast)) (acc : List (String × Val)) (off : Nat)
    (s : Option (List (String × Val))) : Prop :=
  ∀ kvs, stripKVs kvs = stripKVs kvs0 →
    ∃ n, ∀ fuel, n ≤ fuel → AgreesF (interpKVs rt fuel d kvs acc off) s off

theorem CIF.congr {d : Val} {a : Ast} {off : Nat} {s s' : Option Val} (h : CIF rt d a off s) (e : s = s') :
    CIF rt d a off s' := e ▸ h
theorem CAF.congr {d : Val} {a : List Ast} {off : Nat} {s s' : Option (List Val)} (h : CAF rt d a off s)
    (e : s = s') : CAF rt d a off s' := e ▸ h
theorem CKF.congr {d : Val} {a : List (String × Ast)} {acc : List (String × Val)} {off : Nat}
    {s s' : Option (List (String × Val))} (h : CKF rt d a acc off s) (e : s = s') :
    CKF rt d a acc off s' := e ▸ h

theorem cif_identity (d : Val) (o off : Nat) : CIF rt d (.identity o) off (some d) := by
  intro a ha
  obtain ⟨o', rfl⟩ := strip_inv_identity ha
  refine ⟨1, fun fuel hf => ?_⟩
  obtain ⟨k, rfl, _⟩ := fuel_succ hf
  simp [interp, AgreesF]

theorem cif_field (d : Val) (o off : Nat) (s : String) : CIF rt d (.field o s) off (some (Sem.field d s)) := by
  intro a ha
  obtain ⟨o', rfl⟩ := strip_inv_field ha
  refine ⟨1, fun fuel hf => ?_⟩
  obtain ⟨k, rfl, _⟩ := fuel_succ hf
  cases d <;> simp [interp, AgreesF, Val.getField, Sem.field]

theorem cif_literal (d v : Val) (o off : Nat) : CIF rt d (.literal o v) off (some v) := by
  intro a ha
  obtain ⟨o', rfl⟩ := strip_inv_literal ha
  refine ⟨1, fun fuel hf => ?_⟩
  obtain ⟨k, rfl, _⟩ := fuel_succ hf
  simp [interp, AgreesF]

theorem cif_index (d : Val) (o off : Nat) (i : Int) : CIF rt d (.index o i) off (some (Sem.index d i)) := by
  intro a ha
  obtain ⟨o', rfl⟩ := strip_inv_index ha
  refine ⟨1, fun fuel hf => ?_⟩
  obtain ⟨k, rfl, _⟩ := fuel_succ hf
  cases d <;> simp [interp, AgreesF, Sem.index, C07_index_eq_python]

theorem cif_subexpr {d : Val} {l r : Ast} {o off : Nat} {sl : Option Val} {g : Val → Option Val}
    (hl : CIF rt d l off sl) (hr : ∀ lv, sl = some lv → CIF rt lv r off (g lv)) :
    CIF rt d (.subexpr o l r) off (sl.bind g) := by
  intro a ha
  obtain ⟨o', l', r', rfl, hl', hr'⟩ := strip_inv_subexpr ha
  obtain ⟨n1, h1⟩ := hl l' hl'
  cases sl with
  | none =>
    refine ⟨n1 + 1, fun fuel hf => ?_⟩
    obtain ⟨k, rfl, hk⟩ := fuel_succ hf
    obtain ⟨e', ho, hg⟩ := h1 k hk
    simp only [interp, ho]
    exact ⟨e', rfl, hg⟩
  | some lv =>
    obtain ⟨n2, h2⟩ := hr lv rfl r' hr'
    refine ⟨max n1 n2 + 1, fun fuel hf => ?_⟩
    obtain ⟨k, rfl, hk⟩ := fuel_succ hf
    have e1 := h1 k (by omega)
    have e2 := h2 k (by omega)
    simp only [AgreesF] at e1
    simp only [interp, e1, Option.bind_some]
    exact e2

theorem cif_or {d : Val} {l r : Ast} {o off : Nat} {sl sr : Option Val}
    (hl : CIF rt d l off sl) (hr : ∀ lv, sl = some lv → lv.truthy = false → CIF rt d r off sr) :
    CIF rt d (.or o l r) off (sl.bind fun lv => if lv.truthy then some lv else sr) := by
  intro a ha
  obtain ⟨o', l', r', rfl, hl', hr'⟩ := strip_inv_or ha
  obtain ⟨n1, h1⟩ := hl l' hl'
  cases sl with
  | none =>
    refine ⟨n1 + 1, fun fuel hf => ?_⟩
    obtain ⟨k, rfl, hk⟩ := fuel_succ hf
    obtain ⟨e', ho, hg⟩ := h1 k hk
    simp only [interp, ho]
    exact ⟨e', rfl, hg⟩
  | some lv =>
    by_cases ht : lv.truthy = true
    · refine ⟨n1 + 1, fun fuel hf => ?_⟩
      obtain ⟨k, rfl, hk⟩ := fuel_succ hf
      have e1 := h1 k hk
      simp only [AgreesF] at e1
      simp [interp, e1, ht, AgreesF]
    · obtain ⟨n2, h2⟩ := hr lv rfl (by simpa using ht) r' hr'
      refine ⟨max n1 n2 + 1, fun fuel hf => ?_⟩
      obtain ⟨k, rfl, hk⟩ := fuel_succ hf
      have e1 := h1 k (by omega)
      have e2 := h2 k (by omega)
      simp only [AgreesF] at e1
      simp only [interp, e1, Option.bind_some, ht]
      exact e2

theorem cif_and {d : Val} {l r : Ast} {o off : Nat} {sl sr : Option Val}
    (hl : CIF rt d l off sl) (hr : ∀ lv, sl = some lv → lv.truthy = true → CIF rt d r off sr) :
    CIF rt d (.and o l r) off (sl.bind fun lv => if !lv.truthy then some lv else sr) := by
  intro a ha
  obtain ⟨o', l', r', rfl, hl', hr'⟩ := strip_inv_and ha
  obtain ⟨n1, h1⟩ := hl l' hl'
  cases sl with
  | none =>
    refine ⟨n1 + 1, fun fuel hf => ?_⟩
    obtain ⟨k, rfl, hk⟩ := fuel_succ hf
    obtain ⟨e', ho, hg⟩ := h1 k hk
    simp only [interp, ho]
    exact ⟨e', rfl, hg⟩
  | some lv =>
    by_cases ht : lv.truthy = true
    · obtain ⟨n2, h2⟩ := hr lv rfl ht r' hr'
      refine ⟨max n1 n2 + 1, fun fuel hf => ?_⟩
      obtain ⟨k, rfl, hk⟩ := fuel_succ hf
      have e1 := h1 k (by omega)
      have e2 := h2 k (by omega)
      simp only [AgreesF] at e1
      simp only [interp, e1, Option.bind_some, ht]
      exact e2
    · refine ⟨n1 + 1, fun fuel hf => ?_⟩
      obtain ⟨k, rfl, hk⟩ := fuel_succ hf
      have e1 := h1 k hk
      simp only [AgreesF] at e1
      simp [interp, e1, ht, AgreesF]

theorem cif_not {d : Val} {a : Ast} {o off : Nat} {s : Option Val}
    (h : CIF rt d a off s) : CIF rt d (.not o a) off (s.map fun v => .bool (!v.truthy)) := by
  intro a0 ha
  obtain ⟨o', a', rfl, ha'⟩ := strip_inv_not ha
  obtain ⟨n1, h1⟩ := h a' ha'
  refine ⟨n1 + 1, fun fuel hf => ?_⟩
  obtain ⟨k, rfl, hk⟩ := fuel_succ hf
  have e1 := h1 k hk
  cases s with
  | none => obtain ⟨e', ho, hg⟩ := e1; simp only [interp, ho]; exact ⟨e', rfl, hg⟩
  | some v => simp only [AgreesF] at e1; simp [interp, e1, AgreesF]

theorem cif_condition {d : Val} {p t : Ast} {o off : Nat} {sp st : Option Val}
    (hp : CIF rt d p off sp) (ht : ∀ c, sp = some c → c.truthy = true → CIF rt d t off st) :
    CIF rt d (.condition o p t) off (sp.bind fun c => if c.truthy then st else some .null) := by
  intro a ha
  obtain ⟨o', p', t', rfl, hp', ht'⟩ := strip_inv_condition ha
  obtain ⟨n1, h1⟩ := hp p' hp'
  cases sp with
  | none =>
    refine ⟨n1 + 1, fun fuel hf => ?_⟩
    obtain ⟨k, rfl, hk⟩ := fuel_succ hf
    obtain ⟨e', ho, hg⟩ := h1 k hk
    simp only [interp, ho]
    exact ⟨e', rfl, hg⟩
  | some c =>
    by_cases hc : c.truthy = true
    · obtain ⟨n2, h2⟩ := ht c rfl hc t' ht'
      refine ⟨max n1 n2 + 1, fun fuel hf => ?_⟩
      obtain ⟨k, rfl, hk⟩ := fuel_succ hf
      have e1 := h1 k (by omega)
      have e2 := h2 k (by omega)
      simp only [AgreesF] at e1
      simp only [interp, e1, Option.bind_some, hc]
      exact e2
    · refine ⟨n1 + 1, fun fuel hf => ?_⟩
      obtain ⟨k, rfl, hk⟩ := fuel_succ hf
      have e1 := h1 k hk
      simp only [AgreesF] at e1
      simp [interp, e1, hc, AgreesF]

theorem cif_comparison {d : Val} {l r : Ast} {o off : Nat} {c : Cmp} {sl sr : Option Val}
    (hl : CIF rt d l off sl) (hr : ∀ lv, sl = some lv → CIF rt d r off sr) :
    CIF rt d (.comparison o c l r) off (sl.bind fun lv => sr.map fun rv => Sem.cmpVal c lv rv) := by
  intro a ha
  obtain ⟨o', l', r', rfl, hl', hr'⟩ := strip_inv_comparison ha
  obtain ⟨n1, h1⟩ := hl l' hl'
  cases sl with
  | none =>
    refine ⟨n1 + 1, fun fuel hf => ?_⟩
    obtain ⟨k, rfl, hk⟩ := fuel_succ hf
    obtain ⟨e', ho, hg⟩ := h1 k hk
    simp only [interp, ho]
    exact ⟨e', rfl, hg⟩
  | some lv =>
    obtain ⟨n2, h2⟩ := hr lv rfl r' hr'
    refine ⟨max n1 n2 + 1, fun fuel hf => ?_⟩
    obtain ⟨k, rfl, hk⟩ := fuel_succ hf
    have e1 := h1 k (by omega)
    have e2 := h2 k (by omega)
    simp only [AgreesF] at e1
    cases sr with
    | none => obtain ⟨e', ho, hg⟩ := e2; simp only [interp, e1, ho]; exact ⟨e', rfl, hg⟩
    | some rv =>
      simp only [AgreesF] at e2
      simp only [interp, e1, e2, Option.bind_some, Option.map_some, AgreesF, Sem.cmpVal]
      cases Val.compare c lv rv <;> rfl

theorem cif_objectValues {d : Val} {a : Ast} {o off : Nat} {s : Option Val}
    (h : CIF rt d a off s) :
    CIF rt d (.objectValues o a) off
      (s.map fun v => match v with | .obj kvs => .arr (Sem.values kvs) | _ => .null) := by
  intro a0 ha
  obtain ⟨o', a', rfl, ha'⟩ := strip_inv_objectValues ha
  obtain ⟨n1, h1⟩ := h a' ha'
  refine ⟨n1 + 1, fun fuel hf => ?_⟩
  obtain ⟨k, rfl, hk⟩ := fuel_succ hf
  have e1 := h1 k hk
  cases s with
  | none => obtain ⟨e', ho, hg⟩ := e1; simp only [interp, ho]; exact ⟨e', rfl, hg⟩
  | some v =>
    simp only [AgreesF] at e1
    cases v <;> simp [interp, e1, AgreesF, values_eq]

theorem flatMap_eq_flatten1 (xs : List Val) :
    (xs.flatMap fun x => match x with | .arr ys => ys | other => [other]) = Sem.flatten1 xs := by
  induction xs with
  | nil => rfl
  | cons x r ih => cases x <;> simp [Sem.flatten1, List.flatMap_cons, ih]

theorem cif_flatten {d : Val} {a : Ast} {o off : Nat} {s : Option Val}
    (h : CIF rt d a off s) :
    CIF rt d (.flatten o a) off
      (s.map fun v => match v with | .arr xs => .arr (Sem.flatten1 xs) | _ => .null) := by
  intro a0 ha
  obtain ⟨o', a', rfl, ha'⟩ := strip_inv_flatten ha
  obtain ⟨n1, h1⟩ := h a' ha'
  refine ⟨n1 + 1, fun fuel hf => ?_⟩
  obtain ⟨k, rfl, hk⟩ := fuel_succ hf
  have e1 := h1 k hk
  cases s with
  | none => obtain ⟨e', ho, hg⟩ := e1; simp only [interp, ho]; exact ⟨e', rfl, hg⟩
  | some v =>
    simp only [AgreesF] at e1
    cases v with
    | arr xs =>
      simp only [interp, e1, AgreesF, Option.map_some]
      clear e1 h1 h
      congr 3
      induction xs with
      | nil => rfl
      | cons x r ih => cases x <;> simp [Sem.flatten1, List.flatMap_cons, ih]
    | _ => simp [interp, e1, AgreesF]

theorem cif_projection {d : Val} {l r : Ast} {o off : Nat} {sl : Option Val}
    {g : List Val → Option (List Val)}
    (hl : CIF rt d l off sl) (hr : ∀ xs, sl = some (.arr xs) → CPF rt xs r off (g xs)) :
    CIF rt d (.projection o l r) off
      (sl.bind fun v => match v with | .arr xs => (g xs).map .arr | _ => some .null) := by
  intro a ha
  obtain ⟨o', l', r', rfl, hl', hr'⟩ := strip_inv_projection ha
  obtain ⟨n1, h1⟩ := hl l' hl'
  cases sl with
  | none =>
    refine ⟨n1 + 1, fun fuel hf => ?_⟩
    obtain ⟨k, rfl, hk⟩ := fuel_succ hf
    obtain ⟨e', ho, hg⟩ := h1 k hk
    simp only [interp, ho]
    exact ⟨e', rfl, hg⟩
  | some lv =>
    cases lv with
    | arr xs =>
      obtain ⟨n2, h2⟩ := hr xs rfl r' hr'
      refine ⟨max n1 n2 + 1, fun fuel hf => ?_⟩
      obtain ⟨k, rfl, hk⟩ := fuel_succ hf
      have e1 := h1 k (by omega)
      have e2 := h2 k (by omega)
      simp only [AgreesF] at e1
      cases hg : g xs with
      | none =>
        rw [hg] at e2; obtain ⟨e', ho, hgen⟩ := e2
        simp only [interp, e1, ho, Option.bind_some, hg]; exact ⟨e', rfl, hgen⟩
      | some ys => rw [hg] at e2; simp only [AgreesF] at e2; simp [interp, e1, e2, hg, AgreesF]
    | _ =>
      refine ⟨n1 + 1, fun fuel hf => ?_⟩
      obtain ⟨k, rfl, hk⟩ := fuel_succ hf
      have e1 := h1 k hk
      simp only [AgreesF] at e1
      simp [interp, e1, AgreesF]

theorem cpf_each {r : Ast} {off : Nat} {f : Val → Option Val} :
    ∀ xs : List Val, (∀ x ∈ xs, CIF rt x r off (f x)) →
      CPF rt xs r off ((Sem.optMapM f xs).map Sem.dropNulls)
  | [], _ => by
    intro a _
    refine ⟨1, fun fuel hf => ?_⟩
    obtain ⟨k, rfl, hk⟩ := fuel_succ hf
    simp [projectEach, AgreesF, Sem.optMapM, Sem.dropNulls]
  | x :: rest, h => by
    intro a ha
    obtain ⟨n1, h1⟩ := h x (by simp) a ha
    cases hfx : f x with
    | none =>
      refine ⟨n1 + 1, fun fuel hf => ?_⟩
      obtain ⟨k, rfl, hk⟩ := fuel_succ hf
      have e1 := h1 k hk
      rw [hfx] at e1
      obtain ⟨e', ho, hg⟩ := e1
      simp only [projectEach, ho, Sem.optMapM, hfx, Option.map_none]
      exact ⟨e', rfl, hg⟩
    | some v =>
      obtain ⟨n2, h2⟩ := cpf_each rest (fun y hy => h y (by simp [hy])) a ha
      refine ⟨max n1 n2 + 1, fun fuel hf => ?_⟩
      obtain ⟨k, rfl, hk⟩ := fuel_succ hf
      have e1 := h1 k (by omega)
      have e2 := h2 k (by omega)
      rw [hfx] at e1
      simp only [AgreesF] at e1
      cases hm : Sem.optMapM f rest with
      | none =>
        rw [hm] at e2; obtain ⟨e', ho, hg⟩ := e2
        simp only [projectEach, e1, ho, Sem.optMapM, hfx, hm, Option.map_none]
        exact ⟨e', rfl, hg⟩
      | some ys =>
        rw [hm] at e2; simp only [Option.map_some, AgreesF] at e2
        simp only [projectEach, e1, e2, Sem.optMapM, hfx, hm, Option.map_some, AgreesF]
        cases v <;> simp [Sem.dropNulls, Val.isNull]

theorem cif_multiList {d : Val} {es : List Ast} {o off : Nat} {s : Option (List Val)}
    (h : d.isNull = false → CAF rt d es off s) :
    CIF rt d (.multiList o es) off (if d.isNull then some .null else s.map .arr) := by
  intro a ha
  obtain ⟨o', es', rfl, hes'⟩ := strip_inv_multiList ha
  by_cases hn : d.isNull = true
  · refine ⟨1, fun fuel hf => ?_⟩
    obtain ⟨k, rfl, hk⟩ := fuel_succ hf
    simp [interp, hn, AgreesF]
  · obtain ⟨n1, h1⟩ := h (by simpa using hn) es' hes'
    refine ⟨n1 + 1, fun fuel hf => ?_⟩
    obtain ⟨k, rfl, hk⟩ := fuel_succ hf
    have e1 := h1 k hk
    cases s with
    | none => obtain ⟨e', ho, hg⟩ := e1; simp only [interp, hn, ho]; exact ⟨e', rfl, hg⟩
    | some vs => simp only [AgreesF] at e1; simp [interp, hn, e1, AgreesF]

theorem cif_multiHash {d : Val} {kvs : List (String × Ast)} {o off : Nat}
    {s : Option (List (String × Val))}
    (h : d.isNull = false → CKF rt d kvs [] off s) :
    CIF rt d (.multiHash o kvs) off (if d.isNull then some .null else s.map .obj) := by
  intro a ha
  obtain ⟨o', kvs', rfl, hk'⟩ := strip_inv_multiHash ha
  by_cases hn : d.isNull = true
  · refine ⟨1, fun fuel hf => ?_⟩
    obtain ⟨k, rfl, hk⟩ := fuel_succ hf
    simp [interp, hn, AgreesF]
  · obtain ⟨n1, h1⟩ := h (by simpa using hn) kvs' hk'
    refine ⟨n1 + 1, fun fuel hf => ?_⟩
    obtain ⟨k, rfl, hk⟩ := fuel_succ hf
    have e1 := h1 k hk
    cases s with
    | none => obtain ⟨e', ho, hg⟩ := e1; simp only [interp, hn, ho]; exact ⟨e', rfl, hg⟩
    | some vs => simp only [AgreesF] at e1; simp [interp, hn, e1, AgreesF]

theorem cif_slice {d : Val} {o off : Nat} {a b : Option Int} {step : Int}
    (hlen : step ≠ 0 → ∀ xs, d = .arr xs → (xs.length : Int) ≤ I32_MAX) :
    CIF rt d (.slice o a b step) off
      (if step = 0 then none else
        match d with
        | .arr xs => some (.arr (pySlice xs a b step))
        | _ => some .null) := by
  intro a0 ha
  obtain ⟨o', rfl⟩ := strip_inv_slice ha
  refine ⟨1, fun fuel hf => ?_⟩
  obtain ⟨k, rfl, hk⟩ := fuel_succ hf
  by_cases hs : step = 0
  · cases d <;> simp [interp, hs, AgreesF, EvalErr.genuine]
  · cases d with
    | arr xs =>
      have := C07_slice_eq_python xs a b step hs (hlen hs xs rfl)
      simp [interp, hs, AgreesF, this]
    | _ => simp [interp, hs, AgreesF]

theorem caf_nil (d : Val) (off : Nat) : CAF rt d [] off (some []) := by
  intro es hes
  rw [stripList_inv_nil hes]
  refine ⟨1, fun fuel hf => ?_⟩
  obtain ⟨k, rfl, hk⟩ := fuel_succ hf
  simp [interpAll, AgreesF]

theorem caf_cons {d : Val} {a : Ast} {rest : List Ast} {off : Nat} {s1 : Option Val}
    {s2 : Option (List Val)}
    (h1 : CIF rt d a off s1) (h2 : ∀ v, s1 = some v → CAF rt d rest off s2) :
    CAF rt d (a :: rest) off (s1.bind fun v => s2.map (v :: ·)) := by
  intro es hes
  obtain ⟨a', rest', rfl, ha', hrest'⟩ := stripList_inv_cons hes
  obtain ⟨n1, h1⟩ := h1 a' ha'
  cases s1 with
  | none =>
    refine ⟨n1 + 1, fun fuel hf => ?_⟩
    obtain ⟨k, rfl, hk⟩ := fuel_succ hf
    obtain ⟨e', ho, hg⟩ := h1 k hk
    simp only [interpAll, ho]
    exact ⟨e', rfl, hg⟩
  | some v =>
    obtain ⟨n2, h2⟩ := h2 v rfl rest' hrest'
    refine ⟨max n1 n2 + 1, fun fuel hf => ?_⟩
    obtain ⟨k, rfl, hk⟩ := fuel_succ hf
    have e1 := h1 k (by omega)
    have e2 := h2 k (by omega)
    simp only [AgreesF] at e1
    cases s2 with
    | none => obtain ⟨e', ho, hg⟩ := e2; simp only [interpAll, e1, ho]; exact ⟨e', rfl, hg⟩
    | some vs => simp only [AgreesF] at e2; simp [interpAll, e1, e2, AgreesF]

theorem ckf_nil (d : Val) (acc : List (String × Val)) (off : Nat) : CKF rt d [] acc off (some acc) := by
  intro kvs hk
  rw [stripKVs_inv_nil hk]
  refine ⟨1, fun fuel hf => ?_⟩
  obtain ⟨k, rfl, hk⟩ := fuel_succ hf
  simp [interpKVs, AgreesF]

theorem ckf_cons {d : Val} {k : String} {a : Ast} {rest : List (String × Ast)}
    {acc : List (String × Val)} {off : Nat} {s1 : Option Val}
    {g : Val → Option (List (String × Val))}
    (h1 : CIF rt d a off s1) (h2 : ∀ v, s1 = some v → CKF rt d rest (insertKV k v acc) off (g v)) :
    CKF rt d ((k, a) :: rest) acc off (s1.bind g) := by
  intro kvs hkvs
  obtain ⟨a', rest', rfl, ha', hrest'⟩ := stripKVs_inv_cons hkvs
  obtain ⟨n1, h1⟩ := h1 a' ha'
  cases s1 with
  | none =>
    refine ⟨n1 + 1, fun fuel hf => ?_⟩
    obtain ⟨k, rfl, hk⟩ := fuel_succ hf
    obtain ⟨e', ho, hg⟩ := h1 k hk
    simp only [interpKVs, ho]
    exact ⟨e', rfl, hg⟩
  | some v =>
    obtain ⟨n2, h2⟩ := h2 v rfl rest' hrest'
    refine ⟨max n1 n2 + 1, fun fuel hf => ?_⟩
    obtain ⟨k, rfl, hk⟩ := fuel_succ hf
    have e1 := h1 k (by omega)
    have e2 := h2 k (by omega)
    simp only [AgreesF] at e1
    simp only [interpKVs, e1, Option.bind_some]
    exact e2

/-- a projection node: left side, then the right side on every element, nulls dropped -/
theorem cif_proj {off : Nat} {d : Val} {lhs rhsA : Ast} {sl : Option Val} {f : Val → Option Val}
    (hl : CIF rt d lhs off sl)
    (hx : ∀ xs, sl = some (.arr xs) → ∀ x ∈ xs, CIF rt x rhsA off (f x)) :
    CIF rt d (.projection 0 lhs rhsA) off
      (sl.bind fun v => match v with
        | .arr xs => (Sem.optMapM f xs).map (fun ys => .arr (Sem.dropNulls ys))
        | _ => some .null) := by
  refine (cif_projection rt (g := fun xs => (Sem.optMapM f xs).map Sem.dropNulls) hl
    (fun xs h => cpf_each rt xs (hx xs h))).congr rt ?_
  cases sl with
  | none => rfl
  | some v => cases v <;> simp [Option.map_map, Function.comp_def]

/-- the body of a filter projection on one element -/
theorem cif_cond_of {off : Nat} {x : Val} {pa ra : Ast} {sp st s : Option Val}
    (hp : CIF rt x pa off sp) (ht : ∀ c, sp = some c → c.truthy = true → CIF rt x ra off st)
    (hs : s = sp.bind fun c => if c.truthy then st else some .null) :
    CIF rt x (.condition 0 pa ra) off s := hs ▸ cif_condition rt hp ht

end rules

end JmesVerif
