import JmesVerif.Lemmas.InterpFuel
/-!
Compositionality of the interpreter model (`Model/Interp.lean`).

* Part 1: `interp_offset_irrelevant` — the threaded offset register (`ctx.offset`) never influences
  the value or the error of `interp` (`projectEach`, `interpAll`, `interpKVs` likewise).  `callFn`,
  `mapExpref`, `keysTyped`, `byExtreme` are entered with the call's own offset, which their errors
  record (`callFn_outcome_depends_on_offset`), so they are not part of the invariant.
  `interp_offset_preserved`: a successful run returns the offset it was given.
* Part 2: `Evals rt d a r` (big-step evaluation with enough fuel, from any offset) is deterministic
  (`Evals.det`) and the `C11_*` theorems characterise `Evals` of every compound node exactly by
  `Evals` of its parts.  Technique: `Comp.ev` (the outcome at offset 0) satisfies offset-free
  unfolding equations (`Comp.ev_subexpr` …), and `Evals rt d a r ↔ r ≠ fuel ∧ ∃ n, ev rt n d a = r`
  (`Comp.evals_iff`, from `interp_mono`).
-/
namespace JmesVerif

def outcome (r : ERes α) : Except EvalErr α := match r with | .ok (v, _) => .ok v | .error e => .error e

@[simp] theorem outcome_ok (v : α) (o : Nat) : outcome (.ok (v, o) : ERes α) = .ok v := rfl
@[simp] theorem outcome_error (e : EvalErr) : outcome (.error e : ERes α) = .error e := rfl

namespace Comp

structure OffIrr (rt : Registry) (n : Nat) : Prop where
  interp : ∀ d a o1 o2, outcome (interp rt n d a o1) = outcome (interp rt n d a o2)
  projectEach : ∀ xs a o1 o2, outcome (projectEach rt n xs a o1) = outcome (projectEach rt n xs a o2)
  interpAll : ∀ d es o1 o2, outcome (interpAll rt n d es o1) = outcome (interpAll rt n d es o2)
  interpKVs : ∀ d kvs acc o1 o2, outcome (interpKVs rt n d kvs acc o1) = outcome (interpKVs rt n d kvs acc o2)

theorem OffIrr.zero (rt : Registry) : OffIrr rt 0 := by
  constructor <;> intros <;> simp [JmesVerif.interp, JmesVerif.projectEach, JmesVerif.interpAll,
    JmesVerif.interpKVs]

theorem offIrr_interp_step (rt : Registry) (n : Nat) (ih : OffIrr rt n) : ∀ d a o1 o2,
    outcome (interp rt (n+1) d a o1) = outcome (interp rt (n+1) d a o2) := by
  intro d a o1 o2
  have h1 := ih.interp
  have h2 := ih.projectEach
  have h3 := ih.interpAll
  have h4 := ih.interpKVs
  cases a <;> try simp only [interp]
  all_goals try (grind [outcome])
  all_goals (cases d <;> simp only [interp] <;> grind [outcome])

theorem offIrr_projectEach_step (rt : Registry) (n : Nat) (ih : OffIrr rt n) : ∀ xs a o1 o2,
    outcome (projectEach rt (n+1) xs a o1) = outcome (projectEach rt (n+1) xs a o2) := by
  intro xs a o1 o2
  have h1 := ih.interp
  have h2 := ih.projectEach
  cases xs <;> simp only [projectEach] <;> grind [outcome]

theorem offIrr_interpAll_step (rt : Registry) (n : Nat) (ih : OffIrr rt n) : ∀ d es o1 o2,
    outcome (interpAll rt (n+1) d es o1) = outcome (interpAll rt (n+1) d es o2) := by
  intro d es o1 o2
  have h1 := ih.interp
  have h3 := ih.interpAll
  cases es <;> simp only [interpAll] <;> grind [outcome]

theorem offIrr_interpKVs_step (rt : Registry) (n : Nat) (ih : OffIrr rt n) : ∀ d kvs acc o1 o2,
    outcome (interpKVs rt (n+1) d kvs acc o1) = outcome (interpKVs rt (n+1) d kvs acc o2) := by
  intro d kvs acc o1 o2
  have h1 := ih.interp
  have h4 := ih.interpKVs
  rcases kvs with _ | ⟨⟨k, e⟩, rest⟩ <;> simp only [interpKVs] <;> grind [outcome]

theorem offIrr_all (rt : Registry) : ∀ n, OffIrr rt n
  | 0 => OffIrr.zero rt
  | n + 1 =>
    have ih := offIrr_all rt n
    ⟨offIrr_interp_step rt n ih, offIrr_projectEach_step rt n ih, offIrr_interpAll_step rt n ih,
     offIrr_interpKVs_step rt n ih⟩

end Comp

/-- Part 1: the offset register (`ctx.offset`) never influences the value or the error. -/
theorem interp_offset_irrelevant (rt : Registry) (fuel : Nat) (d : Val) (a : Ast) (off₁ off₂ : Nat) :
    outcome (interp rt fuel d a off₁) = outcome (interp rt fuel d a off₂) :=
  (Comp.offIrr_all rt fuel).interp d a off₁ off₂

theorem projectEach_offset_irrelevant (rt : Registry) (fuel : Nat) (xs : List Val) (a : Ast) (off₁ off₂ : Nat) :
    outcome (projectEach rt fuel xs a off₁) = outcome (projectEach rt fuel xs a off₂) :=
  (Comp.offIrr_all rt fuel).projectEach xs a off₁ off₂

theorem interpAll_offset_irrelevant (rt : Registry) (fuel : Nat) (d : Val) (es : List Ast) (off₁ off₂ : Nat) :
    outcome (interpAll rt fuel d es off₁) = outcome (interpAll rt fuel d es off₂) :=
  (Comp.offIrr_all rt fuel).interpAll d es off₁ off₂

theorem interpKVs_offset_irrelevant (rt : Registry) (fuel : Nat) (d : Val) (kvs : List (String × Ast))
    (acc : List (String × Val)) (off₁ off₂ : Nat) :
    outcome (interpKVs rt fuel d kvs acc off₁) = outcome (interpKVs rt fuel d kvs acc off₂) :=
  (Comp.offIrr_all rt fuel).interpKVs d kvs acc off₁ off₂


/-! ### auxiliary invariant: the offset is restored -/

namespace Comp

/-- a successful run of any function of the block returns the offset it was given -/
structure OffKeep (rt : Registry) (n : Nat) : Prop where
  interp : ∀ d a off v off', interp rt n d a off = .ok (v, off') → off' = off
  projectEach : ∀ xs a off v off', projectEach rt n xs a off = .ok (v, off') → off' = off
  interpAll : ∀ d es off v off', interpAll rt n d es off = .ok (v, off') → off' = off
  interpKVs : ∀ d kvs acc off v off', interpKVs rt n d kvs acc off = .ok (v, off') → off' = off
  mapExpref : ∀ xs a off v off', mapExpref rt n xs a off = .ok (v, off') → off' = off
  keysTyped : ∀ xs a ty inv off v off', keysTyped rt n xs a ty inv off = .ok (v, off') → off' = off
  callFn : ∀ f args off v off', callFn rt n f args off = .ok (v, off') → off' = off
  byExtreme : ∀ isMax xs a off v off', byExtreme rt n isMax xs a off = .ok (v, off') → off' = off

theorem OffKeep.zero (rt : Registry) : OffKeep rt 0 := by
  constructor <;> intros <;> simp_all [JmesVerif.interp, JmesVerif.projectEach, JmesVerif.interpAll,
    JmesVerif.interpKVs, JmesVerif.mapExpref, JmesVerif.keysTyped, JmesVerif.callFn, JmesVerif.byExtreme]

theorem offKeep_succ (rt : Registry) (n : Nat) (ih : OffKeep rt n) : OffKeep rt (n+1) := by
  have h1 := ih.interp
  have h2 := ih.projectEach
  have h3 := ih.interpAll
  have h4 := ih.interpKVs
  have h5 := ih.mapExpref
  have h6 := ih.keysTyped
  have h7 := ih.callFn
  have h8 := ih.byExtreme
  constructor
  · intro d a off v off' h
    rw [interp.eq_def] at h
    grind
  · intro xs a off v off' h
    rw [projectEach.eq_def] at h
    grind
  · intro d es off v off' h
    rw [interpAll.eq_def] at h
    grind
  · intro d kvs acc off v off' h
    rw [interpKVs.eq_def] at h
    grind
  · intro xs a off v off' h
    rw [mapExpref.eq_def] at h
    grind
  · intro xs a ty inv off v off' h
    rw [keysTyped.eq_def] at h
    grind
  · intro f args off v off' h
    rw [callFn.eq_def] at h
    simp only at h
    repeat' (split at h)
    all_goals grind
  · intro isMax xs a off v off' h
    rw [byExtreme.eq_def] at h
    grind


theorem offKeep_all (rt : Registry) : ∀ n, OffKeep rt n
  | 0 => OffKeep.zero rt
  | n + 1 => offKeep_succ rt n (offKeep_all rt n)

end Comp

/-- auxiliary invariant: a successful `interp` returns the offset it was given (the `.function` arm
restores the previous offset; no other arm writes it) -/
theorem interp_offset_preserved (rt : Registry) (fuel : Nat) (d : Val) (a : Ast) (off : Nat) (v : Val)
    (off' : Nat) (h : interp rt fuel d a off = .ok (v, off')) : off' = off :=
  (Comp.offKeep_all rt fuel).interp d a off v off' h

/-- Part 1 and the invariant together: the same run from another offset -/
theorem interp_reoffset (rt : Registry) (fuel : Nat) (d : Val) (a : Ast) (off off₂ : Nat) :
    (∀ v off', interp rt fuel d a off = .ok (v, off') → interp rt fuel d a off₂ = .ok (v, off₂)) ∧
    (∀ e, interp rt fuel d a off = .error e → interp rt fuel d a off₂ = .error e) := by
  have h := interp_offset_irrelevant rt fuel d a off off₂
  constructor
  · intro v off' h1
    rw [h1] at h
    cases h2 : interp rt fuel d a off₂ with
    | error e => rw [h2] at h; simp at h
    | ok p =>
      obtain ⟨v2, o2⟩ := p
      rw [h2] at h; simp at h
      rw [interp_offset_preserved rt fuel d a off₂ v2 o2 h2, h]
  · intro e h1
    rw [h1] at h
    cases h2 : interp rt fuel d a off₂ with
    | error e2 => rw [h2] at h; simp at h; rw [h]
    | ok p => obtain ⟨v2, o2⟩ := p; rw [h2] at h; simp at h

/-- why `callFn` (and `mapExpref`, `keysTyped`, `byExtreme`) are not part of the Part-1 invariant: their
errors record the offset they were entered with (the call's own offset, fixed by the tree) -/
theorem callFn_outcome_depends_on_offset (rt : Registry) :
    outcome (callFn rt 1 (.builtin .abs) [] 0) ≠ outcome (callFn rt 1 (.builtin .abs) [] 1) := by
  simp [callFn, Builtin.sig, Sig.validate, Sig.validateArity]


/-! ## Part 2 — big-step evaluation and the compositional laws -/

namespace Comp

/-- offset-free views of the four evaluation functions -/
def ev (rt : Registry) (n : Nat) (d : Val) (a : Ast) : Except EvalErr Val := outcome (interp rt n d a 0)
def evEach (rt : Registry) (n : Nat) (xs : List Val) (a : Ast) : Except EvalErr (List Val) :=
  outcome (projectEach rt n xs a 0)
def evAll (rt : Registry) (n : Nat) (d : Val) (es : List Ast) : Except EvalErr (List Val) :=
  outcome (interpAll rt n d es 0)
def evKVs (rt : Registry) (n : Nat) (d : Val) (kvs : List (String × Ast)) (acc : List (String × Val)) :
    Except EvalErr (List (String × Val)) := outcome (interpKVs rt n d kvs acc 0)

theorem outcome_interp (rt : Registry) (n : Nat) (d : Val) (a : Ast) (off : Nat) :
    outcome (interp rt n d a off) = ev rt n d a := interp_offset_irrelevant rt n d a off 0
theorem outcome_projectEach (rt : Registry) (n : Nat) (xs : List Val) (a : Ast) (off : Nat) :
    outcome (projectEach rt n xs a off) = evEach rt n xs a := projectEach_offset_irrelevant rt n xs a off 0
theorem outcome_interpAll (rt : Registry) (n : Nat) (d : Val) (es : List Ast) (off : Nat) :
    outcome (interpAll rt n d es off) = evAll rt n d es := interpAll_offset_irrelevant rt n d es off 0
theorem outcome_interpKVs (rt : Registry) (n : Nat) (d : Val) (kvs : List (String × Ast))
    (acc : List (String × Val)) (off : Nat) :
    outcome (interpKVs rt n d kvs acc off) = evKVs rt n d kvs acc :=
  interpKVs_offset_irrelevant rt n d kvs acc off 0

theorem outcome_ne_fuel {α} {r : ERes α} (h : outcome r ≠ .error .fuel) : r ≠ .error .fuel := by
  intro h'; subst h'; exact h rfl

theorem ev_mono {rt n d a r} (h : ev rt n d a = r) (hr : r ≠ .error .fuel) {m : Nat} (hm : n ≤ m) :
    ev rt m d a = r := by
  subst h
  unfold ev
  rw [interp_mono rt n d a 0 _ rfl (outcome_ne_fuel hr) m hm]
theorem evEach_mono {rt n xs a r} (h : evEach rt n xs a = r) (hr : r ≠ .error .fuel) {m : Nat} (hm : n ≤ m) :
    evEach rt m xs a = r := by
  subst h
  unfold evEach
  rw [projectEach_mono rt n xs a 0 _ rfl (outcome_ne_fuel hr) m hm]
theorem evAll_mono {rt n d es r} (h : evAll rt n d es = r) (hr : r ≠ .error .fuel) {m : Nat} (hm : n ≤ m) :
    evAll rt m d es = r := by
  subst h
  unfold evAll
  rw [interpAll_mono rt n d es 0 _ rfl (outcome_ne_fuel hr) m hm]
theorem evKVs_mono {rt n d kvs acc r} (h : evKVs rt n d kvs acc = r) (hr : r ≠ .error .fuel) {m : Nat}
    (hm : n ≤ m) : evKVs rt m d kvs acc = r := by
  subst h
  unfold evKVs
  rw [interpKVs_mono rt n d kvs acc 0 _ rfl (outcome_ne_fuel hr) m hm]

@[simp] theorem ev_zero (rt d a) : ev rt 0 d a = .error .fuel := by simp [ev, interp]
@[simp] theorem evEach_zero (rt xs a) : evEach rt 0 xs a = .error .fuel := by simp [evEach, projectEach]
@[simp] theorem evAll_zero (rt d es) : evAll rt 0 d es = .error .fuel := by simp [evAll, interpAll]
@[simp] theorem evKVs_zero (rt d kvs acc) : evKVs rt 0 d kvs acc = .error .fuel := by simp [evKVs, interpKVs]

theorem ev_subexpr (rt n d o l r) : ev rt (n+1) d (.subexpr o l r) =
    match ev rt n d l with
    | .error e => .error e
    | .ok v => ev rt n v r := by
  have h1 := outcome_interp rt n
  simp only [ev, interp]
  grind [outcome]

theorem ev_or (rt n d o l r) : ev rt (n+1) d (.or o l r) =
    match ev rt n d l with
    | .error e => .error e
    | .ok v => if v.truthy then .ok v else ev rt n d r := by
  have h1 := outcome_interp rt n
  simp only [ev, interp]
  grind [outcome]

theorem ev_and (rt n d o l r) : ev rt (n+1) d (.and o l r) =
    match ev rt n d l with
    | .error e => .error e
    | .ok v => if !v.truthy then .ok v else ev rt n d r := by
  have h1 := outcome_interp rt n
  simp only [ev, interp]
  grind [outcome]

theorem ev_not (rt n d o a) : ev rt (n+1) d (.not o a) =
    match ev rt n d a with
    | .error e => .error e
    | .ok v => .ok (.bool (!v.truthy)) := by
  simp only [ev, interp]
  grind [outcome]

theorem ev_condition (rt n d o p t) : ev rt (n+1) d (.condition o p t) =
    match ev rt n d p with
    | .error e => .error e
    | .ok c => if c.truthy then ev rt n d t else .ok .null := by
  have h1 := outcome_interp rt n
  simp only [ev, interp]
  grind [outcome]

theorem ev_comparison (rt n d o c l r) : ev rt (n+1) d (.comparison o c l r) =
    match ev rt n d l with
    | .error e => .error e
    | .ok lv =>
      match ev rt n d r with
      | .error e => .error e
      | .ok rv => .ok (match Val.compare c lv rv with | some b => .bool b | none => .null) := by
  have h1 := outcome_interp rt n
  simp only [ev, interp]
  grind [outcome]

theorem ev_flatten (rt n d o a) : ev rt (n+1) d (.flatten o a) =
    match ev rt n d a with
    | .error e => .error e
    | .ok (.arr xs) => .ok (.arr (xs.flatMap fun x => match x with | .arr ys => ys | other => [other]))
    | .ok _ => .ok .null := by
  simp only [ev, interp]
  grind [outcome]

theorem ev_objectValues (rt n d o a) : ev rt (n+1) d (.objectValues o a) =
    match ev rt n d a with
    | .error e => .error e
    | .ok (.obj kvs) => .ok (.arr (kvs.map fun (_, v) => v))
    | .ok _ => .ok .null := by
  simp only [ev, interp]
  grind [outcome]

theorem ev_projection (rt n d o l r) : ev rt (n+1) d (.projection o l r) =
    match ev rt n d l with
    | .error e => .error e
    | .ok (.arr xs) =>
      (match evEach rt n xs r with
       | .error e => .error e
       | .ok ys => .ok (.arr ys))
    | .ok _ => .ok .null := by
  have h2 := outcome_projectEach rt n
  simp only [ev, interp]
  grind [outcome]

theorem ev_multiList (rt n d o es) : ev rt (n+1) d (.multiList o es) =
    if d.isNull then .ok .null else
    match evAll rt n d es with
    | .error e => .error e
    | .ok vs => .ok (.arr vs) := by
  simp only [ev, evAll, interp]
  grind [outcome]

theorem ev_multiHash (rt n d o kvs) : ev rt (n+1) d (.multiHash o kvs) =
    if d.isNull then .ok .null else
    match evKVs rt n d kvs [] with
    | .error e => .error e
    | .ok m => .ok (.obj m) := by
  simp only [ev, evKVs, interp]
  grind [outcome]

@[simp] theorem evEach_nil (rt n a) : evEach rt (n+1) [] a = .ok [] := by simp [evEach, projectEach]
theorem evEach_cons (rt n x xs a) : evEach rt (n+1) (x :: xs) a =
    match ev rt n x a with
    | .error e => .error e
    | .ok v =>
      match evEach rt n xs a with
      | .error e => .error e
      | .ok vs => .ok (if v.isNull then vs else v :: vs) := by
  have h2 := outcome_projectEach rt n
  simp only [ev, evEach, projectEach]
  grind [outcome]

@[simp] theorem evAll_nil (rt n d) : evAll rt (n+1) d [] = .ok [] := by simp [evAll, interpAll]
theorem evAll_cons (rt n d e es) : evAll rt (n+1) d (e :: es) =
    match ev rt n d e with
    | .error e => .error e
    | .ok v =>
      match evAll rt n d es with
      | .error e => .error e
      | .ok vs => .ok (v :: vs) := by
  have h2 := outcome_interpAll rt n
  simp only [ev, evAll, interpAll]
  grind [outcome]

@[simp] theorem evKVs_nil (rt n d acc) : evKVs rt (n+1) d [] acc = .ok acc := by simp [evKVs, interpKVs]
theorem evKVs_cons (rt n d k e rest acc) : evKVs rt (n+1) d ((k, e) :: rest) acc =
    match ev rt n d e with
    | .error e => .error e
    | .ok v => evKVs rt n d rest (insertKV k v acc) := by
  have h2 := outcome_interpKVs rt n
  simp only [ev, evKVs, interpKVs]
  grind [outcome]

end Comp

/-- with enough fuel, evaluating `a` on `d` yields `r` (a value or a genuine error), from any offset -/
def Evals (rt : Registry) (d : Val) (a : Ast) (r : Except EvalErr Val) : Prop :=
  r ≠ .error .fuel ∧ ∃ n, ∀ fuel, n ≤ fuel → ∀ off, outcome (interp rt fuel d a off) = r

namespace Comp

theorem evals_iff {rt d a r} : Evals rt d a r ↔ r ≠ .error .fuel ∧ ∃ n, ev rt n d a = r := by
  constructor
  · rintro ⟨hr, n, h⟩
    exact ⟨hr, n, h n (Nat.le_refl _) 0⟩
  · rintro ⟨hr, n, h⟩
    refine ⟨hr, n, fun fuel hf off => ?_⟩
    rw [outcome_interp]
    exact ev_mono h hr hf

theorem evals_of_ev {rt d a r} (n : Nat) (h : ev rt n d a = r) (hr : r ≠ .error .fuel) : Evals rt d a r :=
  evals_iff.2 ⟨hr, n, h⟩

/-- two evaluations can be run with the same fuel -/
theorem evals_two {rt d₁ a₁ r₁ d₂ a₂ r₂} (h₁ : Evals rt d₁ a₁ r₁) (h₂ : Evals rt d₂ a₂ r₂) :
    ∃ n, ev rt n d₁ a₁ = r₁ ∧ ev rt n d₂ a₂ = r₂ := by
  obtain ⟨hr1, n1, h1⟩ := evals_iff.1 h₁
  obtain ⟨hr2, n2, h2⟩ := evals_iff.1 h₂
  exact ⟨max n1 n2, ev_mono h1 hr1 (Nat.le_max_left _ _), ev_mono h2 hr2 (Nat.le_max_right _ _)⟩

end Comp

theorem Evals.det {rt : Registry} {d : Val} {a : Ast} {r₁ r₂ : Except EvalErr Val} :
    Evals rt d a r₁ → Evals rt d a r₂ → r₁ = r₂ := by
  intro h₁ h₂
  obtain ⟨n, e1, e2⟩ := Comp.evals_two h₁ h₂
  rw [← e1, ← e2]

open Comp in
/-- pipe / sub-expression is composition -/
theorem C11_pipe (rt : Registry) (d : Val) (o : Nat) (l r : Ast) (res : Except EvalErr Val) :
    Evals rt d (.subexpr o l r) res ↔
      (∃ e, Evals rt d l (.error e) ∧ res = .error e) ∨ (∃ v, Evals rt d l (.ok v) ∧ Evals rt v r res) := by
  constructor
  · intro h
    obtain ⟨hr, n, hn⟩ := evals_iff.1 h
    cases n with
    | zero => simp at hn; exact absurd hn.symm hr
    | succ n =>
      rw [ev_subexpr] at hn
      cases hl : ev rt n d l with
      | error e =>
        rw [hl] at hn; simp only at hn
        exact .inl ⟨e, evals_of_ev n hl (by rw [hn]; exact hr), hn.symm⟩
      | ok v =>
        rw [hl] at hn; simp only at hn
        exact .inr ⟨v, evals_of_ev n hl (by simp), evals_of_ev n hn hr⟩
  · rintro (⟨e, hl, rfl⟩ | ⟨v, hl, hr⟩)
    · obtain ⟨he, n, hn⟩ := evals_iff.1 hl
      exact evals_of_ev (n+1) (by rw [ev_subexpr, hn]) he
    · obtain ⟨n, e1, e2⟩ := evals_two hl hr
      exact evals_of_ev (n+1) (by rw [ev_subexpr, e1]; exact e2) hr.1

namespace Comp
/-- the compound is evaluated with at least one unit of fuel -/
theorem evals_succ {rt d a r} (h : Evals rt d a r) : r ≠ .error .fuel ∧ ∃ n, ev rt (n+1) d a = r := by
  obtain ⟨hr, n, hn⟩ := evals_iff.1 h
  exact ⟨hr, n, ev_mono hn hr (Nat.le_succ n)⟩
end Comp

open Comp in
theorem C11_not (rt : Registry) (d : Val) (o : Nat) (a : Ast) (res : Except EvalErr Val) :
    Evals rt d (.not o a) res ↔
      (∃ e, Evals rt d a (.error e) ∧ res = .error e) ∨
      (∃ v, Evals rt d a (.ok v) ∧ res = .ok (.bool (!v.truthy))) := by
  constructor
  · intro h
    obtain ⟨hr, n, hn⟩ := evals_succ h
    rw [ev_not] at hn
    split at hn
    · subst hn; exact .inl ⟨_, evals_of_ev n ‹_› hr, rfl⟩
    · subst hn; exact .inr ⟨_, evals_of_ev n ‹_› (by simp), rfl⟩
  · rintro (⟨e, hl, rfl⟩ | ⟨v, hl, rfl⟩)
    · obtain ⟨he, n, hn⟩ := evals_iff.1 hl
      exact evals_of_ev (n+1) (by rw [ev_not, hn]) he
    · obtain ⟨he, n, hn⟩ := evals_iff.1 hl
      exact evals_of_ev (n+1) (by rw [ev_not, hn]) (by simp)

open Comp in
/-- `||`: the left operand if it is truthy, else the right operand -/
theorem C11_or (rt : Registry) (d : Val) (o : Nat) (l r : Ast) (res : Except EvalErr Val) :
    Evals rt d (.or o l r) res ↔
      (∃ e, Evals rt d l (.error e) ∧ res = .error e) ∨
      (∃ v, Evals rt d l (.ok v) ∧ v.truthy = true ∧ res = .ok v) ∨
      (∃ v, Evals rt d l (.ok v) ∧ v.truthy = false ∧ Evals rt d r res) := by
  constructor
  · intro h
    obtain ⟨hr, n, hn⟩ := evals_succ h
    rw [ev_or] at hn
    split at hn
    · subst hn; exact .inl ⟨_, evals_of_ev n ‹_› hr, rfl⟩
    · split at hn
      · subst hn; exact .inr (.inl ⟨_, evals_of_ev n ‹_› (by simp), ‹_›, rfl⟩)
      · exact .inr (.inr ⟨_, evals_of_ev n ‹_› (by simp), (by rename_i hh; simpa using hh), evals_of_ev n hn hr⟩)
  · rintro (⟨e, hl, rfl⟩ | ⟨v, hl, ht, rfl⟩ | ⟨v, hl, ht, hr⟩)
    · obtain ⟨he, n, hn⟩ := evals_iff.1 hl
      exact evals_of_ev (n+1) (by rw [ev_or, hn]) he
    · obtain ⟨he, n, hn⟩ := evals_iff.1 hl
      exact evals_of_ev (n+1) (by rw [ev_or, hn]; simp [ht]) (by simp)
    · obtain ⟨n, e1, e2⟩ := evals_two hl hr
      exact evals_of_ev (n+1) (by rw [ev_or, e1]; simp [ht, e2]) hr.1

open Comp in
/-- `&&`: the left operand if it is falsy, else the right operand -/
theorem C11_and (rt : Registry) (d : Val) (o : Nat) (l r : Ast) (res : Except EvalErr Val) :
    Evals rt d (.and o l r) res ↔
      (∃ e, Evals rt d l (.error e) ∧ res = .error e) ∨
      (∃ v, Evals rt d l (.ok v) ∧ v.truthy = false ∧ res = .ok v) ∨
      (∃ v, Evals rt d l (.ok v) ∧ v.truthy = true ∧ Evals rt d r res) := by
  constructor
  · intro h
    obtain ⟨hr, n, hn⟩ := evals_succ h
    rw [ev_and] at hn
    split at hn
    · subst hn; exact .inl ⟨_, evals_of_ev n ‹_› hr, rfl⟩
    · split at hn
      · subst hn; exact .inr (.inl ⟨_, evals_of_ev n ‹_› (by simp), (by rename_i hh; simpa using hh), rfl⟩)
      · exact .inr (.inr ⟨_, evals_of_ev n ‹_› (by simp), (by rename_i hh; simpa using hh), evals_of_ev n hn hr⟩)
  · rintro (⟨e, hl, rfl⟩ | ⟨v, hl, ht, rfl⟩ | ⟨v, hl, ht, hr⟩)
    · obtain ⟨he, n, hn⟩ := evals_iff.1 hl
      exact evals_of_ev (n+1) (by rw [ev_and, hn]) he
    · obtain ⟨he, n, hn⟩ := evals_iff.1 hl
      exact evals_of_ev (n+1) (by rw [ev_and, hn]; simp [ht]) (by simp)
    · obtain ⟨n, e1, e2⟩ := evals_two hl hr
      exact evals_of_ev (n+1) (by rw [ev_and, e1]; simp [ht, e2]) hr.1

open Comp in
/-- the per-element step of a filter `[?pred]`: `thn` if the predicate is truthy, else null -/
theorem C11_condition (rt : Registry) (d : Val) (o : Nat) (pred thn : Ast) (res : Except EvalErr Val) :
    Evals rt d (.condition o pred thn) res ↔
      (∃ e, Evals rt d pred (.error e) ∧ res = .error e) ∨
      (∃ c, Evals rt d pred (.ok c) ∧ c.truthy = true ∧ Evals rt d thn res) ∨
      (∃ c, Evals rt d pred (.ok c) ∧ c.truthy = false ∧ res = .ok .null) := by
  constructor
  · intro h
    obtain ⟨hr, n, hn⟩ := evals_succ h
    rw [ev_condition] at hn
    split at hn
    · subst hn; exact .inl ⟨_, evals_of_ev n ‹_› hr, rfl⟩
    · split at hn
      · exact .inr (.inl ⟨_, evals_of_ev n ‹_› (by simp), ‹_›, evals_of_ev n hn hr⟩)
      · subst hn; exact .inr (.inr ⟨_, evals_of_ev n ‹_› (by simp), (by rename_i hh; simpa using hh), rfl⟩)
  · rintro (⟨e, hl, rfl⟩ | ⟨v, hl, ht, hr⟩ | ⟨v, hl, ht, rfl⟩)
    · obtain ⟨he, n, hn⟩ := evals_iff.1 hl
      exact evals_of_ev (n+1) (by rw [ev_condition, hn]) he
    · obtain ⟨n, e1, e2⟩ := evals_two hl hr
      exact evals_of_ev (n+1) (by rw [ev_condition, e1]; simp [ht, e2]) hr.1
    · obtain ⟨he, n, hn⟩ := evals_iff.1 hl
      exact evals_of_ev (n+1) (by rw [ev_condition, hn]; simp [ht]) (by simp)

open Comp in
/-- a comparison evaluates both operands left to right and compares the values -/
theorem C11_comparison (rt : Registry) (d : Val) (o : Nat) (c : Cmp) (l r : Ast) (res : Except EvalErr Val) :
    Evals rt d (.comparison o c l r) res ↔
      (∃ e, Evals rt d l (.error e) ∧ res = .error e) ∨
      (∃ lv e, Evals rt d l (.ok lv) ∧ Evals rt d r (.error e) ∧ res = .error e) ∨
      (∃ lv rv, Evals rt d l (.ok lv) ∧ Evals rt d r (.ok rv) ∧
        res = .ok (match Val.compare c lv rv with | some b => .bool b | none => .null)) := by
  constructor
  · intro h
    obtain ⟨hr, n, hn⟩ := evals_succ h
    rw [ev_comparison] at hn
    split at hn
    · subst hn; exact .inl ⟨_, evals_of_ev n ‹_› hr, rfl⟩
    · split at hn
      · subst hn; exact .inr (.inl ⟨_, _, evals_of_ev n ‹_› (by simp), evals_of_ev n ‹_› hr, rfl⟩)
      · subst hn
        exact .inr (.inr ⟨_, _, evals_of_ev n ‹_› (by simp), evals_of_ev n ‹_› (by simp), rfl⟩)
  · rintro (⟨e, hl, rfl⟩ | ⟨lv, e, hl, hr, rfl⟩ | ⟨lv, rv, hl, hr, rfl⟩)
    · obtain ⟨he, n, hn⟩ := evals_iff.1 hl
      exact evals_of_ev (n+1) (by rw [ev_comparison, hn]) he
    · obtain ⟨n, e1, e2⟩ := evals_two hl hr
      exact evals_of_ev (n+1) (by rw [ev_comparison, e1, e2]) hr.1
    · obtain ⟨n, e1, e2⟩ := evals_two hl hr
      exact evals_of_ev (n+1) (by rw [ev_comparison, e1, e2]) (by simp)

open Comp in
/-- flatten merges one level of an array result; anything else is null -/
theorem C11_flatten (rt : Registry) (d : Val) (o : Nat) (a : Ast) (res : Except EvalErr Val) :
    Evals rt d (.flatten o a) res ↔
      (∃ e, Evals rt d a (.error e) ∧ res = .error e) ∨
      (∃ v, Evals rt d a (.ok v) ∧ (∀ xs, v ≠ .arr xs) ∧ res = .ok .null) ∨
      (∃ xs, Evals rt d a (.ok (.arr xs)) ∧
        res = .ok (.arr (xs.flatMap fun x => match x with | .arr ys => ys | other => [other]))) := by
  constructor
  · intro h
    obtain ⟨hr, n, hn⟩ := evals_succ h
    rw [ev_flatten] at hn
    split at hn
    · subst hn; exact .inl ⟨_, evals_of_ev n ‹_› hr, rfl⟩
    · subst hn; exact .inr (.inr ⟨_, evals_of_ev n ‹_› (by simp), rfl⟩)
    · subst hn
      rename_i v hnot hv
      exact .inr (.inl ⟨_, evals_of_ev n hv (by simp), fun xs hx => hnot xs hx, rfl⟩)
  · rintro (⟨e, hl, rfl⟩ | ⟨v, hl, hv, rfl⟩ | ⟨xs, hl, rfl⟩)
    · obtain ⟨he, n, hn⟩ := evals_iff.1 hl
      exact evals_of_ev (n+1) (by rw [ev_flatten, hn]) he
    · obtain ⟨he, n, hn⟩ := evals_iff.1 hl
      refine evals_of_ev (n+1) ?_ (by simp)
      rw [ev_flatten, hn]
      cases v <;> simp_all
    · obtain ⟨he, n, hn⟩ := evals_iff.1 hl
      exact evals_of_ev (n+1) (by rw [ev_flatten, hn]) (by simp)

/-- element-wise evaluation of `r` over `xs`, in order: the first failure, or all results -/
inductive EachEvals (rt : Registry) (r : Ast) : List Val → Except EvalErr (List Val) → Prop
  | nil : EachEvals rt r [] (.ok [])
  | fail (x xs e) : Evals rt x r (.error e) → EachEvals rt r (x :: xs) (.error e)
  | step (x xs v res) : Evals rt x r (.ok v) → EachEvals rt r xs res →
      EachEvals rt r (x :: xs) (match res with | .ok vs => .ok (v :: vs) | .error e => .error e)

namespace Comp

/-- what `projectEach` returns given the element-wise results: nulls dropped -/
def dropNulls (out : Except EvalErr (List Val)) : Except EvalErr (List Val) :=
  match out with
  | .ok ys => .ok (ys.filter fun y => !y.isNull)
  | .error e => .error e

theorem evEach_sound (rt : Registry) (r : Ast) : ∀ (xs : List Val) (n : Nat) (out' : Except EvalErr (List Val)),
    evEach rt n xs r = out' → out' ≠ .error .fuel →
    ∃ out, EachEvals rt r xs out ∧ out' = dropNulls out := by
  intro xs
  induction xs with
  | nil =>
    intro n out' h hne
    cases n with
    | zero => simp at h; exact absurd h.symm hne
    | succ n => simp at h; subst h; exact ⟨_, .nil, rfl⟩
  | cons x xs ih =>
    intro n out' h hne
    cases n with
    | zero => simp at h; exact absurd h.symm hne
    | succ n =>
      rw [evEach_cons] at h
      split at h
      · subst h
        exact ⟨_, .fail x xs _ (evals_of_ev n ‹_› (by simpa using hne)), rfl⟩
      · rename_i v hv
        split at h
        · subst h
          rename_i e he
          obtain ⟨out, ho, heq⟩ := ih n _ he hne
          cases out with
          | ok ys => simp [dropNulls] at heq
          | error e' =>
            simp [dropNulls] at heq; subst heq
            exact ⟨_, .step x xs v _ (evals_of_ev n hv (by simp)) ho, rfl⟩
        · subst h
          rename_i vs hvs
          obtain ⟨out, ho, heq⟩ := ih n _ hvs (by simp)
          cases out with
          | error e' => simp [dropNulls] at heq
          | ok ys =>
            simp [dropNulls] at heq; subst heq
            refine ⟨_, .step x xs v _ (evals_of_ev n hv (by simp)) ho, ?_⟩
            cases hnull : v.isNull <;> simp [dropNulls, hnull]

theorem eachEvals_complete (rt : Registry) (r : Ast) (xs : List Val) (out : Except EvalErr (List Val))
    (h : EachEvals rt r xs out) : dropNulls out ≠ .error .fuel ∧ ∃ n, evEach rt n xs r = dropNulls out := by
  induction h with
  | nil => exact ⟨by simp [dropNulls], 1, by simp [dropNulls]⟩
  | fail x xs e he =>
    obtain ⟨hne, n, hn⟩ := evals_iff.1 he
    exact ⟨by simpa [dropNulls] using hne, n + 1, by rw [evEach_cons, hn]; rfl⟩
  | step x xs v res hv _ ih =>
    obtain ⟨hne, n2, h2⟩ := ih
    obtain ⟨_, n1, h1⟩ := evals_iff.1 hv
    have e1 := ev_mono h1 (by simp) (Nat.le_max_left n1 n2)
    have e2 := evEach_mono h2 hne (Nat.le_max_right n1 n2)
    cases res with
    | error e =>
      exact ⟨by simpa [dropNulls] using hne, max n1 n2 + 1, by rw [evEach_cons, e1, e2]; rfl⟩
    | ok ys =>
      refine ⟨by simp [dropNulls], max n1 n2 + 1, ?_⟩
      rw [evEach_cons, e1, e2]
      cases hnull : v.isNull <;> simp [dropNulls, hnull]

end Comp

open Comp in
/-- a projection over an array result applies the right-hand side to each element separately,
keeps order and drops nulls; over anything else it is null -/
theorem C11_projection (rt : Registry) (d : Val) (o : Nat) (l r : Ast) (res : Except EvalErr Val) :
    Evals rt d (.projection o l r) res ↔
      (∃ e, Evals rt d l (.error e) ∧ res = .error e) ∨
      (∃ v, Evals rt d l (.ok v) ∧ (∀ xs, v ≠ .arr xs) ∧ res = .ok .null) ∨
      (∃ xs out, Evals rt d l (.ok (.arr xs)) ∧ EachEvals rt r xs out ∧
        res = (match out with | .ok ys => .ok (.arr (ys.filter fun y => !y.isNull)) | .error e => .error e)) := by
  constructor
  · intro h
    obtain ⟨hr, n, hn⟩ := evals_succ h
    rw [ev_projection] at hn
    split at hn
    · subst hn; exact .inl ⟨_, evals_of_ev n ‹_› hr, rfl⟩
    · rename_i xs hl
      refine .inr (.inr ⟨xs, ?_⟩)
      split at hn
      · subst hn
        rename_i e he
        obtain ⟨out, ho, heq⟩ := evEach_sound rt r xs n _ he (by simpa using hr)
        cases out with
        | ok ys => simp [dropNulls] at heq
        | error e' =>
          simp [dropNulls] at heq; subst heq
          exact ⟨_, evals_of_ev n hl (by simp), ho, rfl⟩
      · subst hn
        rename_i ys hys
        obtain ⟨out, ho, heq⟩ := evEach_sound rt r xs n _ hys (by simp)
        cases out with
        | error e' => simp [dropNulls] at heq
        | ok ys' =>
          simp [dropNulls] at heq; subst heq
          exact ⟨_, evals_of_ev n hl (by simp), ho, rfl⟩
    · subst hn
      rename_i v hnot hv
      exact .inr (.inl ⟨_, evals_of_ev n hv (by simp), fun xs hx => hnot xs hx, rfl⟩)
  · rintro (⟨e, hl, rfl⟩ | ⟨v, hl, hv, rfl⟩ | ⟨xs, out, hl, ho, rfl⟩)
    · obtain ⟨he, n, hn⟩ := evals_iff.1 hl
      exact evals_of_ev (n+1) (by rw [ev_projection, hn]) he
    · obtain ⟨he, n, hn⟩ := evals_iff.1 hl
      refine evals_of_ev (n+1) ?_ (by simp)
      rw [ev_projection, hn]
      cases v <;> simp_all
    · obtain ⟨_, n1, h1⟩ := evals_iff.1 hl
      obtain ⟨hne, n2, h2⟩ := eachEvals_complete rt r xs out ho
      have e1 := ev_mono h1 (by simp) (Nat.le_max_left n1 n2)
      have e2 := evEach_mono h2 hne (Nat.le_max_right n1 n2)
      cases out with
      | error e =>
        exact evals_of_ev (max n1 n2 + 1) (by rw [ev_projection, e1]; simp only; rw [e2]; rfl)
          (by simpa [dropNulls] using hne)
      | ok ys =>
        exact evals_of_ev (max n1 n2 + 1) (by rw [ev_projection, e1]; simp only; rw [e2]; rfl) (by simp)

/-- evaluation of a list of trees on the same data, in order: the first failure, or all results -/
inductive AllEvals (rt : Registry) (d : Val) : List Ast → Except EvalErr (List Val) → Prop
  | nil : AllEvals rt d [] (.ok [])
  | fail (a rest e) : Evals rt d a (.error e) → AllEvals rt d (a :: rest) (.error e)
  | step (a rest v res) : Evals rt d a (.ok v) → AllEvals rt d rest res →
      AllEvals rt d (a :: rest) (match res with | .ok vs => .ok (v :: vs) | .error e => .error e)

namespace Comp

theorem evAll_sound (rt : Registry) (d : Val) : ∀ (es : List Ast) (n : Nat) (out : Except EvalErr (List Val)),
    evAll rt n d es = out → out ≠ .error .fuel → AllEvals rt d es out := by
  intro es
  induction es with
  | nil =>
    intro n out h hne
    cases n with
    | zero => simp at h; exact absurd h.symm hne
    | succ n => simp at h; subst h; exact .nil
  | cons a as ih =>
    intro n out h hne
    cases n with
    | zero => simp at h; exact absurd h.symm hne
    | succ n =>
      rw [evAll_cons] at h
      split at h
      · subst h
        exact .fail a as _ (evals_of_ev n ‹_› (by simpa using hne))
      · rename_i v hv
        split at h
        · subst h
          rename_i e he
          exact .step a as v _ (evals_of_ev n hv (by simp)) (ih n _ he hne)
        · subst h
          rename_i vs hvs
          exact .step a as v _ (evals_of_ev n hv (by simp)) (ih n _ hvs (by simp))

theorem allEvals_complete (rt : Registry) (d : Val) (es : List Ast) (out : Except EvalErr (List Val))
    (h : AllEvals rt d es out) : out ≠ .error .fuel ∧ ∃ n, evAll rt n d es = out := by
  induction h with
  | nil => exact ⟨by simp, 1, by simp⟩
  | fail a as e he =>
    obtain ⟨hne, n, hn⟩ := evals_iff.1 he
    exact ⟨by simpa using hne, n + 1, by rw [evAll_cons, hn]⟩
  | step a as v res hv _ ih =>
    obtain ⟨hne, n2, h2⟩ := ih
    obtain ⟨_, n1, h1⟩ := evals_iff.1 hv
    have e1 := ev_mono h1 (by simp) (Nat.le_max_left n1 n2)
    have e2 := evAll_mono h2 hne (Nat.le_max_right n1 n2)
    cases res with
    | error e => exact ⟨by simpa using hne, max n1 n2 + 1, by rw [evAll_cons, e1, e2]⟩
    | ok ys => exact ⟨by simp, max n1 n2 + 1, by rw [evAll_cons, e1, e2]⟩

theorem allEvals_iff {rt d es out} :
    AllEvals rt d es out ↔ out ≠ .error .fuel ∧ ∃ n, evAll rt n d es = out :=
  ⟨allEvals_complete rt d es out, fun ⟨hne, n, h⟩ => evAll_sound rt d es n out h hne⟩

end Comp

open Comp in
/-- a multi-select list is null on null data, else the tuple of its members' results in order;
the first failing member fails the whole -/
theorem C11_multilist (rt : Registry) (d : Val) (o : Nat) (es : List Ast) (res : Except EvalErr Val) :
    Evals rt d (.multiList o es) res ↔
      (d.isNull = true ∧ res = .ok .null) ∨
      (d.isNull = false ∧ ∃ out, AllEvals rt d es out ∧
        res = (match out with | .ok vs => .ok (.arr vs) | .error e => .error e)) := by
  constructor
  · intro h
    obtain ⟨hr, n, hn⟩ := evals_succ h
    rw [ev_multiList] at hn
    split at hn
    · exact .inl ⟨‹_›, hn.symm⟩
    · rename_i hd
      refine .inr ⟨by simpa using hd, ?_⟩
      split at hn
      · subst hn
        exact ⟨_, evAll_sound rt d es n _ ‹_› (by simpa using hr), rfl⟩
      · subst hn
        exact ⟨_, evAll_sound rt d es n _ ‹_› (by simp), rfl⟩
  · rintro (⟨hd, rfl⟩ | ⟨hd, out, ho, rfl⟩)
    · exact evals_of_ev 1 (by rw [ev_multiList]; simp [hd]) (by simp)
    · obtain ⟨hne, n, hn⟩ := allEvals_complete rt d es out ho
      cases out with
      | error e => exact evals_of_ev (n + 1) (by rw [ev_multiList, hn]; simp [hd]) (by simpa using hne)
      | ok vs => exact evals_of_ev (n + 1) (by rw [ev_multiList, hn]; simp [hd]) (by simp)

namespace Comp

/-- `BTreeMap::insert` of each key with its value, left to right -/
abbrev insertAll (acc : List (String × Val)) (ks : List String) (vs : List Val) : List (String × Val) :=
  (ks.zip vs).foldl (fun m kv => insertKV kv.1 kv.2 m) acc

theorem evKVs_sound (rt : Registry) (d : Val) : ∀ (kvs : List (String × Ast)) (n : Nat)
    (acc : List (String × Val)) (out' : Except EvalErr (List (String × Val))),
    evKVs rt n d kvs acc = out' → out' ≠ .error .fuel →
    ∃ out, AllEvals rt d (kvs.map (·.2)) out ∧
      out' = (match out with
        | .ok vs => .ok (insertAll acc (kvs.map (·.1)) vs)
        | .error e => .error e) := by
  intro kvs
  induction kvs with
  | nil =>
    intro n acc out' h hne
    cases n with
    | zero => simp at h; exact absurd h.symm hne
    | succ n => simp at h; subst h; exact ⟨_, .nil, by simp [insertAll]⟩
  | cons kv rest ih =>
    obtain ⟨k, a⟩ := kv
    intro n acc out' h hne
    cases n with
    | zero => simp at h; exact absurd h.symm hne
    | succ n =>
      rw [evKVs_cons] at h
      split at h
      · subst h
        exact ⟨_, .fail a _ _ (evals_of_ev n ‹_› (by simpa using hne)), rfl⟩
      · rename_i v hv
        obtain ⟨out, ho, heq⟩ := ih n _ _ h hne
        refine ⟨_, .step a _ v out (evals_of_ev n hv (by simp)) ho, ?_⟩
        subst heq
        cases out <;> simp [insertAll]

theorem evKVs_complete (rt : Registry) (d : Val) : ∀ (kvs : List (String × Ast))
    (acc : List (String × Val)) (out : Except EvalErr (List Val)),
    AllEvals rt d (kvs.map (·.2)) out →
    ∃ n, evKVs rt n d kvs acc = (match out with
        | .ok vs => .ok (insertAll acc (kvs.map (·.1)) vs)
        | .error e => .error e) := by
  intro kvs
  induction kvs with
  | nil =>
    intro acc out h
    cases h
    exact ⟨1, by simp [insertAll]⟩
  | cons kv rest ih =>
    obtain ⟨k, a⟩ := kv
    intro acc out h
    simp only [List.map_cons] at h
    cases h with
    | fail _ _ e he =>
      obtain ⟨hne, n, hn⟩ := evals_iff.1 he
      exact ⟨n + 1, by rw [evKVs_cons, hn]⟩
    | step _ _ v res hv hrest =>
      obtain ⟨n2, h2⟩ := ih (insertKV k v acc) res hrest
      obtain ⟨_, n1, h1⟩ := evals_iff.1 hv
      have hne := (allEvals_complete rt d _ res hrest).1
      have e1 := ev_mono h1 (by simp) (Nat.le_max_left n1 n2)
      refine ⟨max n1 n2 + 1, ?_⟩
      rw [evKVs_cons, e1]
      simp only
      cases res with
      | error e =>
        exact evKVs_mono h2 (by simpa using hne) (Nat.le_max_right n1 n2)
      | ok vs =>
        rw [evKVs_mono h2 (by simp) (Nat.le_max_right n1 n2)]
        simp [insertAll]

end Comp

open Comp in
/-- a multi-select hash is null on null data, else the record obtained by inserting each member's
result under its key, in order (a later duplicate key replaces an earlier one); the first failing
member fails the whole -/
theorem C11_multihash (rt : Registry) (d : Val) (o : Nat) (kvs : List (String × Ast))
    (res : Except EvalErr Val) :
    Evals rt d (.multiHash o kvs) res ↔
      (d.isNull = true ∧ res = .ok .null) ∨
      (d.isNull = false ∧ ∃ out, AllEvals rt d (kvs.map (·.2)) out ∧
        res = (match out with
          | .ok vs => .ok (.obj (((kvs.map (·.1)).zip vs).foldl (fun m kv => insertKV kv.1 kv.2 m) []))
          | .error e => .error e)) := by
  constructor
  · intro h
    obtain ⟨hr, n, hn⟩ := evals_succ h
    rw [ev_multiHash] at hn
    split at hn
    · exact .inl ⟨‹_›, hn.symm⟩
    · rename_i hd
      refine .inr ⟨by simpa using hd, ?_⟩
      split at hn
      · subst hn
        rename_i e he
        obtain ⟨out, ho, heq⟩ := evKVs_sound rt d kvs n [] _ he (by simpa using hr)
        refine ⟨out, ho, ?_⟩
        cases out <;> simp_all
      · subst hn
        rename_i m hm
        obtain ⟨out, ho, heq⟩ := evKVs_sound rt d kvs n [] _ hm (by simp)
        refine ⟨out, ho, ?_⟩
        cases out <;> simp_all [insertAll]
  · rintro (⟨hd, rfl⟩ | ⟨hd, out, ho, rfl⟩)
    · exact evals_of_ev 1 (by rw [ev_multiHash]; simp [hd]) (by simp)
    · obtain ⟨n, hn⟩ := evKVs_complete rt d kvs [] out ho
      have hne := (allEvals_complete rt d _ out ho).1
      cases out with
      | error e => exact evals_of_ev (n + 1) (by rw [ev_multiHash, hn]; simp [hd]) (by simpa using hne)
      | ok vs => exact evals_of_ev (n + 1) (by rw [ev_multiHash, hn]; simp [hd, insertAll]) (by simp)

open Comp in
/-- `*` on an object result lists its values (in key order); on anything else it is null -/
theorem C11_objectValues (rt : Registry) (d : Val) (o : Nat) (a : Ast) (res : Except EvalErr Val) :
    Evals rt d (.objectValues o a) res ↔
      (∃ e, Evals rt d a (.error e) ∧ res = .error e) ∨
      (∃ v, Evals rt d a (.ok v) ∧ (∀ kvs, v ≠ .obj kvs) ∧ res = .ok .null) ∨
      (∃ kvs, Evals rt d a (.ok (.obj kvs)) ∧ res = .ok (.arr (kvs.map fun (_, v) => v))) := by
  constructor
  · intro h
    obtain ⟨hr, n, hn⟩ := evals_succ h
    rw [ev_objectValues] at hn
    split at hn
    · subst hn; exact .inl ⟨_, evals_of_ev n ‹_› hr, rfl⟩
    · subst hn; exact .inr (.inr ⟨_, evals_of_ev n ‹_› (by simp), rfl⟩)
    · subst hn
      rename_i v hnot hv
      exact .inr (.inl ⟨_, evals_of_ev n hv (by simp), fun xs hx => hnot xs hx, rfl⟩)
  · rintro (⟨e, hl, rfl⟩ | ⟨v, hl, hv, rfl⟩ | ⟨xs, hl, rfl⟩)
    · obtain ⟨he, n, hn⟩ := evals_iff.1 hl
      exact evals_of_ev (n+1) (by rw [ev_objectValues, hn]) he
    · obtain ⟨he, n, hn⟩ := evals_iff.1 hl
      refine evals_of_ev (n+1) ?_ (by simp)
      rw [ev_objectValues, hn]
      cases v <;> simp_all
    · obtain ⟨he, n, hn⟩ := evals_iff.1 hl
      exact evals_of_ev (n+1) (by rw [ev_objectValues, hn]) (by simp)

open Comp in
/-- leaves (non-vacuity of `Evals`): identity, field, literal and expression reference -/
theorem C11_identity (rt : Registry) (d : Val) (o : Nat) (res : Except EvalErr Val) :
    Evals rt d (.identity o) res ↔ res = .ok d := by
  constructor
  · intro h
    obtain ⟨_, n, hn⟩ := evals_succ h
    simpa [ev, interp] using hn.symm
  · rintro rfl
    exact evals_of_ev 1 (by simp [ev, interp]) (by simp)

open Comp in
theorem C11_field (rt : Registry) (d : Val) (o : Nat) (k : String) (res : Except EvalErr Val) :
    Evals rt d (.field o k) res ↔ res = .ok (d.getField k) := by
  constructor
  · intro h
    obtain ⟨_, n, hn⟩ := evals_succ h
    simpa [ev, interp] using hn.symm
  · rintro rfl
    exact evals_of_ev 1 (by simp [ev, interp]) (by simp)

open Comp in
theorem C11_literal (rt : Registry) (d : Val) (o : Nat) (v : Val) (res : Except EvalErr Val) :
    Evals rt d (.literal o v) res ↔ res = .ok v := by
  constructor
  · intro h
    obtain ⟨_, n, hn⟩ := evals_succ h
    simpa [ev, interp] using hn.symm
  · rintro rfl
    exact evals_of_ev 1 (by simp [ev, interp]) (by simp)

open Comp in
theorem C11_expref (rt : Registry) (d : Val) (o : Nat) (a : Ast) (res : Except EvalErr Val) :
    Evals rt d (.expref o a) res ↔ res = .ok (.expref a) := by
  constructor
  · intro h
    obtain ⟨_, n, hn⟩ := evals_succ h
    simpa [ev, interp] using hn.symm
  · rintro rfl
    exact evals_of_ev 1 (by simp [ev, interp]) (by simp)

end JmesVerif

#print axioms JmesVerif.interp_offset_irrelevant
#print axioms JmesVerif.interp_offset_preserved
#print axioms JmesVerif.interp_reoffset
#print axioms JmesVerif.Evals.det
#print axioms JmesVerif.C11_pipe
#print axioms JmesVerif.C11_not
#print axioms JmesVerif.C11_and
#print axioms JmesVerif.C11_or
#print axioms JmesVerif.C11_condition
#print axioms JmesVerif.C11_comparison
#print axioms JmesVerif.C11_flatten
#print axioms JmesVerif.C11_objectValues
#print axioms JmesVerif.C11_projection
#print axioms JmesVerif.C11_multilist
#print axioms JmesVerif.C11_multihash
#print axioms JmesVerif.C11_identity
#print axioms JmesVerif.C11_field
#print axioms JmesVerif.C11_literal
#print axioms JmesVerif.C11_expref
