import JmesVerif.Spec.SemFull
import JmesVerif.Lemmas.SemJson
import JmesVerif.Lemmas.InterpJson
/-
The full semantics maps JSON values to JSON values: no expression reference ever becomes data
(for expressions covered by `SemFull.exprOk`).
-/
namespace JmesVerif
open Spec

/-- evaluated arguments: values are JSON, functions map JSON to JSON -/
def ArgsJson (as : List SemFull.Arg) : Prop :=
  ∀ a ∈ as, match a with
    | .val v => v.isJson = true
    | .fn f => ∀ x : Val, x.isJson = true → ∀ y, f x = some y → y.isJson = true

theorem allVals_json : ∀ {as : List SemFull.Arg} {vs : List Val}, ArgsJson as →
    SemFull.allVals as = some vs → ∀ v ∈ vs, v.isJson = true
  | [], vs, _, h => by simp [SemFull.allVals] at h; subst h; simp
  | .val v :: r, vs, ha, h => by
    simp only [SemFull.allVals] at h
    cases hr : SemFull.allVals r with
    | none => simp [hr] at h
    | some ws =>
      simp only [hr, Option.map_some, Option.some.injEq] at h
      subst h
      intro w hw
      rcases List.mem_cons.mp hw with rfl | hw
      · exact ha (.val w) (by simp)
      · exact allVals_json (fun a h' => ha a (by simp [h'])) hr w hw
  | .fn _ :: _, vs, _, h => by simp [SemFull.allVals] at h

theorem pureFn_json {b : Builtin} {vs : List Val} {v : Val} (hvs : ∀ a ∈ vs, a.isJson = true)
    (h : SemFull.pureFn b vs = some v) : v.isJson = true := by
  unfold SemFull.pureFn at h
  split at h
  · simp at h
  · split at h
    · rename_i w hw
      simp at h; subst h
      exact pure_json b vs _ hvs hw
    · simp at h

theorem pure_apply_json {b : Builtin} {as : List SemFull.Arg} {v : Val} (ha : ArgsJson as)
    (h : (SemFull.allVals as).bind (SemFull.pureFn b) = some v) : v.isJson = true := by
  cases hv : SemFull.allVals as with
  | none => simp [hv] at h
  | some vs =>
    simp only [hv, Option.bind_some] at h
    exact pureFn_json (allVals_json ha hv) h

theorem mapShape_json {as : List SemFull.Arg} {p} (ha : ArgsJson as) (h : SemFull.mapShape as = some p) :
    (∀ x : Val, x.isJson = true → ∀ y, p.1 x = some y → y.isJson = true) ∧ ∀ x ∈ p.2, x.isJson = true := by
  unfold SemFull.mapShape at h
  split at h
  · rename_i f xs
    simp at h; subst h
    exact ⟨ha (.fn f) (by simp), arr_json.mp (ha (.val (.arr xs)) (by simp))⟩
  · simp at h

theorem byShape_json {as : List SemFull.Arg} {p} (ha : ArgsJson as) (h : SemFull.byShape as = some p) :
    (∀ x : Val, x.isJson = true → ∀ y, p.1 x = some y → y.isJson = true) ∧ ∀ x ∈ p.2, x.isJson = true := by
  unfold SemFull.byShape at h
  split at h
  · rename_i xs f
    simp at h; subst h
    exact ⟨ha (.fn f) (by simp), arr_json.mp (ha (.val (.arr xs)) (by simp))⟩
  · simp at h

theorem pickExtremeF_mem (isMax : Bool) (xs ks : List Val) :
    SemFull.pickExtreme isMax (xs.zip ks) = .null ∨ SemFull.pickExtreme isMax (xs.zip ks) ∈ xs := by
  cases xs with
  | nil => left; simp [SemFull.pickExtreme]
  | cons x rest =>
    cases ks with
    | nil => left; simp [SemFull.pickExtreme]
    | cons k0 ks =>
      right
      simp only [List.zip_cons_cons, SemFull.pickExtreme]
      apply pick_mem
      intro a b
      by_cases hc : (if isMax then Val.cmp b.2 a.2 == .gt else Val.cmp b.2 a.2 == .lt) = true
      · right; simp only [hc, if_true]
      · left; simp only [hc]; rfl

theorem sortBy_json {f : Val → Option Val} {xs : List Val} {v : Val} (hx : ∀ x ∈ xs, x.isJson = true)
    (h : SemFull.sortBy f xs = some v) : v.isJson = true := by
  unfold SemFull.sortBy at h
  split at h
  · simp at h
  · rename_i ks _
    split at h
    · simp at h; subst h
      refine arr_json.mpr fun y hy => hx y ?_
      exact sortBy_mem xs ks y hy
    · simp at h

theorem extremeBy_json {isMax : Bool} {f : Val → Option Val} {xs : List Val} {v : Val}
    (hx : ∀ x ∈ xs, x.isJson = true) (h : SemFull.extremeBy isMax f xs = some v) : v.isJson = true := by
  unfold SemFull.extremeBy at h
  split at h
  · simp at h
  · rename_i ks _
    split at h
    · simp at h; subst h
      rcases pickExtremeF_mem isMax xs ks with h | h
      · rw [h]; rfl
      · exact hx _ h
    · simp at h

theorem apply_json {b : Builtin} {as : List SemFull.Arg} {v : Val} (ha : ArgsJson as)
    (h : SemFull.apply b as = some v) : v.isJson = true := by
  cases b
  case map =>
    simp only [SemFull.apply] at h
    cases hs : SemFull.mapShape as with
    | none => simp [hs] at h
    | some p =>
      simp only [hs, Option.bind_some] at h
      obtain ⟨hf, hx⟩ := mapShape_json ha hs
      cases hm : Sem.optMapM p.1 p.2 with
      | none => simp [hm] at h
      | some ys =>
        simp only [hm, Option.map_some, Option.some.injEq] at h
        subst h
        refine arr_json.mpr fun y hy => ?_
        obtain ⟨x, hx', hfx⟩ := optMapM_mem hm y hy
        exact hf x (hx x hx') y hfx
  case sortBy =>
    simp only [SemFull.apply] at h
    cases hs : SemFull.byShape as with
    | none => simp [hs] at h
    | some p =>
      simp only [hs, Option.bind_some] at h
      exact sortBy_json (byShape_json ha hs).2 h
  case maxBy =>
    simp only [SemFull.apply] at h
    cases hs : SemFull.byShape as with
    | none => simp [hs] at h
    | some p =>
      simp only [hs, Option.bind_some] at h
      exact extremeBy_json (byShape_json ha hs).2 h
  case minBy =>
    simp only [SemFull.apply] at h
    cases hs : SemFull.byShape as with
    | none => simp [hs] at h
    | some p =>
      simp only [hs, Option.bind_some] at h
      exact extremeBy_json (byShape_json ha hs).2 h
  all_goals exact pure_apply_json ha (by simpa only [SemFull.apply] using h)

/-- the step of `args_jsonF`, with everything about the head, its leds and the remaining arguments as
hypotheses (so that the overlapping patterns of `SemFull.args` / `SemFull.argsOk` are analysed outside
the structural recursion) -/
theorem args_cons_json (h : Nud) (ls : List Led) (rest : List Expr)
    (hnud : SemFull.nudOk h = true → ∀ d : Val, d.isJson = true →
      ∀ v, SemFull.nud d h = some v → v.isJson = true)
    (hfn : ∀ e, h = .expref e → SemFull.exprOk e = true → ∀ x : Val, x.isJson = true →
      ∀ y, SemFull.expr x e = some y → y.isJson = true)
    (hleds : SemFull.ledsOk ls = true → ∀ d lv : Val, d.isJson = true →
      lv.isJson = true → ∀ v, SemFull.leds d lv ls = some v → v.isJson = true)
    (hrest : ∀ (name : String) (i : Nat), SemFull.argsOk name i rest = true →
      ∀ d : Val, d.isJson = true → ∀ as, SemFull.args d rest = some as → ArgsJson as)
    (name : String) (i : Nat) (hok : SemFull.argsOk name i (.mk h ls :: rest) = true)
    (d : Val) (hd : d.isJson = true) (as : List SemFull.Arg)
    (has : SemFull.args d (.mk h ls :: rest) = some as) : ArgsJson as := by
  by_cases hex : ∃ e, Expr.mk h ls = .mk (.expref e) []
  · obtain ⟨e, he⟩ := hex
    injection he with h1 h2
    subst h1; subst h2
    simp only [SemFull.argsOk, Bool.and_eq_true] at hok
    simp only [SemFull.args] at has
    cases hr : SemFull.args d rest with
    | none => simp [hr] at has
    | some rs =>
      simp only [hr, Option.map_some, Option.some.injEq] at has
      subst has
      intro a ha
      rcases List.mem_cons.mp ha with rfl | ha
      · exact hfn e rfl hok.1.2
      · exact hrest name (i + 1) hok.2 d hd rs hr a ha
  · have hne : ∀ e', Expr.mk h ls = .mk (.expref e') [] → False := fun e' he => hex ⟨e', he⟩
    rw [SemFull.argsOk.eq_3 _ _ _ _ hne] at hok
    rw [SemFull.args.eq_3 _ _ _ hne] at has
    simp only [Bool.and_eq_true, SemFull.exprOk] at hok
    simp only [SemFull.expr] at has
    cases hn : SemFull.nud d h with
    | none => simp [hn] at has
    | some w =>
      simp only [hn] at has
      cases hl : SemFull.leds d w ls with
      | none => simp [hl] at has
      | some u =>
        simp only [hl] at has
        cases hr : SemFull.args d rest with
        | none => simp [hr] at has
        | some rs =>
          simp only [hr, Option.map_some, Option.some.injEq] at has
          subst has
          intro a ha
          rcases List.mem_cons.mp ha with rfl | ha
          · exact hleds hok.1.2 d w hd (hnud hok.1.1 d hd w hn) u hl
          · exact hrest name (i + 1) hok.2 d hd rs hr a ha

mutual
theorem nud_jsonF : ∀ h : Nud, SemFull.nudOk h = true → ∀ d : Val, d.isJson = true →
    ∀ v, SemFull.nud d h = some v → v.isJson = true
  | .at, _, d, hd, v, hv => by simp [SemFull.nud] at hv; subst hv; exact hd
  | .field s, _, d, hd, v, hv => by simp [SemFull.nud] at hv; subst hv; exact field_json s hd
  | .qfield s, _, d, hd, v, hv => by simp [SemFull.nud] at hv; subst hv; exact field_json s hd
  | .call name as, hc, d, hd, v, hv => by
    have ih := args_jsonF as name 0
    simp only [SemFull.nudOk] at hc
    simp only [SemFull.nud] at hv
    cases ha : SemFull.args d as with
    | none => simp [ha, SemFull.call] at hv
    | some avs =>
      simp only [ha, SemFull.call] at hv
      cases hb : SemFull.builtinOf name with
      | none => simp [hb] at hv
      | some b =>
        simp only [hb] at hv
        exact apply_json (ih hc d hd avs ha) hv
  | .lit w, hc, d, hd, v, hv => by simp [SemFull.nud] at hv; subst hv; simpa [SemFull.nudOk] using hc
  | .idx n, _, d, hd, v, hv => by simp [SemFull.nud] at hv; subst hv; exact index_json n hd
  | .paren e, hc, d, hd, v, hv => by
    simp only [SemFull.nud] at hv; simp only [SemFull.nudOk] at hc
    exact expr_jsonF e hc d hd v hv
  | .not e, hc, d, hd, v, hv => by
    simp only [SemFull.nud] at hv
    cases h : SemFull.expr d e <;> simp [h] at hv
    subst hv; rfl
  | .mlist es, hc, d, hd, v, hv => by
    simp only [SemFull.nud] at hv; simp only [SemFull.nudOk] at hc
    split at hv
    · simp at hv; subst hv; rfl
    · cases h : SemFull.exprs d es <;> simp [h] at hv
      subst hv
      exact arr_json.mpr (exprs_jsonF es hc d hd _ h)
  | .mhash kvs, hc, d, hd, v, hv => by
    simp only [SemFull.nud] at hv; simp only [SemFull.nudOk] at hc
    split at hv
    · simp at hv; subst hv; rfl
    · cases h : SemFull.kvs' d kvs [] <;> simp [h] at hv
      subst hv
      exact obj_json.mpr (kvs_jsonF kvs hc d hd [] (by simp) _ h)
  | .wildIdx r, hc, d, hd, v, hv => by
    simp only [SemFull.nud] at hv; simp only [SemFull.nudOk] at hc
    cases d with
    | arr xs => exact proj_json (fun x hx y hy => rhs_jsonF r hc x (arr_json.mp hd x hx) y hy) hv
    | _ => simp at hv; subst hv; rfl
  | .star r, hc, d, hd, v, hv => by
    simp only [SemFull.nud] at hv; simp only [SemFull.nudOk] at hc
    cases d with
    | obj kvs => exact proj_json (fun x hx y hy => rhs_jsonF r hc x (values_json hd x hx) y hy) hv
    | _ => simp at hv; subst hv; rfl
  | .flatten r, hc, d, hd, v, hv => by
    simp only [SemFull.nud] at hv; simp only [SemFull.nudOk] at hc
    cases d with
    | arr xs => exact proj_json (fun x hx y hy => rhs_jsonF r hc x (flatten1_json hd x hx) y hy) hv
    | _ => simp at hv; subst hv; rfl
  | .slice h r, hc, d, hd, v, hv => by
    simp only [SemFull.nud] at hv; simp only [SemFull.nudOk] at hc
    split at hv
    · simp at hv
    · cases d with
      | arr xs => exact proj_json (fun x hx y hy => rhs_jsonF r hc x (pySlice_json hd x hx) y hy) hv
      | _ => simp at hv; subst hv; rfl
  | .filter p r, hc, d, hd, v, hv => by
    simp only [SemFull.nud] at hv; simp only [SemFull.nudOk, Bool.and_eq_true] at hc
    cases d with
    | arr xs =>
      refine proj_json (fun x hx y hy => ?_) hv
      have hx' := arr_json.mp hd x hx
      cases hp : SemFull.expr x p with
      | none => simp [hp] at hy
      | some c =>
        simp only [hp] at hy
        split at hy
        · exact rhs_jsonF r hc.2 x hx' y hy
        · simp at hy; subst hy; rfl
    | _ => simp at hv; subst hv; rfl
  | .expref _, hc, _, _, _, _ => by simp [SemFull.nudOk] at hc
theorem led_jsonF : ∀ l : Led, SemFull.ledOk l = true → ∀ d lv : Val, d.isJson = true → lv.isJson = true →
    ∀ v, SemFull.led d lv l = some v → v.isJson = true
  | .dot dr, hc, d, lv, hd, hl, v, hv => by
    simp only [SemFull.led] at hv; simp only [SemFull.ledOk] at hc
    exact dot_jsonF dr hc lv hl v hv
  | .index n, _, d, lv, hd, hl, v, hv => by simp [SemFull.led] at hv; subst hv; exact index_json n hl
  | .pipe e, hc, d, lv, hd, hl, v, hv => by
    simp only [SemFull.led] at hv; simp only [SemFull.ledOk] at hc
    exact expr_jsonF e hc lv hl v hv
  | .or e, hc, d, lv, hd, hl, v, hv => by
    simp only [SemFull.led] at hv; simp only [SemFull.ledOk] at hc
    split at hv
    · simp at hv; subst hv; exact hl
    · exact expr_jsonF e hc d hd v hv
  | .and e, hc, d, lv, hd, hl, v, hv => by
    simp only [SemFull.led] at hv; simp only [SemFull.ledOk] at hc
    split at hv
    · simp at hv; subst hv; exact hl
    · exact expr_jsonF e hc d hd v hv
  | .cmp o e, hc, d, lv, hd, hl, v, hv => by
    simp only [SemFull.led] at hv
    cases h : SemFull.expr d e <;> simp [h] at hv
    subst hv; exact cmpVal_json _ _ _
  | .wildIdxL r, hc, d, lv, hd, hl, v, hv => by
    simp only [SemFull.led] at hv; simp only [SemFull.ledOk] at hc
    cases lv with
    | arr xs => exact proj_json (fun x hx y hy => rhs_jsonF r hc x (arr_json.mp hl x hx) y hy) hv
    | _ => simp at hv; subst hv; rfl
  | .dotStar r, hc, d, lv, hd, hl, v, hv => by
    simp only [SemFull.led] at hv; simp only [SemFull.ledOk] at hc
    cases lv with
    | obj kvs => exact proj_json (fun x hx y hy => rhs_jsonF r hc x (values_json hl x hx) y hy) hv
    | _ => simp at hv; subst hv; rfl
  | .flattenL r, hc, d, lv, hd, hl, v, hv => by
    simp only [SemFull.led] at hv; simp only [SemFull.ledOk] at hc
    cases lv with
    | arr xs => exact proj_json (fun x hx y hy => rhs_jsonF r hc x (flatten1_json hl x hx) y hy) hv
    | _ => simp at hv; subst hv; rfl
  | .sliceL h r, hc, d, lv, hd, hl, v, hv => by
    simp only [SemFull.led] at hv; simp only [SemFull.ledOk] at hc
    split at hv
    · simp at hv
    · cases lv with
      | arr xs => exact proj_json (fun x hx y hy => rhs_jsonF r hc x (pySlice_json hl x hx) y hy) hv
      | _ => simp at hv; subst hv; rfl
  | .filterL p r, hc, d, lv, hd, hl, v, hv => by
    simp only [SemFull.led] at hv; simp only [SemFull.ledOk, Bool.and_eq_true] at hc
    cases lv with
    | arr xs =>
      refine proj_json (fun x hx y hy => ?_) hv
      have hx' := arr_json.mp hl x hx
      cases hp : SemFull.expr x p with
      | none => simp [hp] at hy
      | some c =>
        simp only [hp] at hy
        split at hy
        · exact rhs_jsonF r hc.2 x hx' y hy
        · simp at hy; subst hy; rfl
    | _ => simp at hv; subst hv; rfl
  | .callDev _, hc, _, _, _, _, _, _ => by simp [SemFull.ledOk] at hc
theorem rhs_jsonF : ∀ r : Rhs, SemFull.rhsOk r = true → ∀ el : Val, el.isJson = true →
    ∀ v, SemFull.rhs el r = some v → v.isJson = true
  | .none, _, el, hel, v, hv => by simp [SemFull.rhs] at hv; subst hv; exact hel
  | .dot dr, hc, el, hel, v, hv => by
    simp only [SemFull.rhs] at hv; simp only [SemFull.rhsOk] at hc
    exact dot_jsonF dr hc el hel v hv
  | .bracket e, hc, el, hel, v, hv => by
    simp only [SemFull.rhs] at hv; simp only [SemFull.rhsOk] at hc
    exact expr_jsonF e hc el hel v hv
theorem dot_jsonF : ∀ dr : DotRhs, SemFull.dotOk dr = true → ∀ el : Val, el.isJson = true →
    ∀ v, SemFull.dot el dr = some v → v.isJson = true
  | .mlist es, hc, el, hel, v, hv => by
    simp only [SemFull.dot] at hv; simp only [SemFull.dotOk] at hc
    split at hv
    · simp at hv; subst hv; rfl
    · cases h : SemFull.exprs el es <;> simp [h] at hv
      subst hv
      exact arr_json.mpr (exprs_jsonF es hc el hel _ h)
  | .expr e, hc, el, hel, v, hv => by
    simp only [SemFull.dot] at hv; simp only [SemFull.dotOk] at hc
    exact expr_jsonF e hc el hel v hv
theorem expr_jsonF : ∀ e : Expr, SemFull.exprOk e = true → ∀ d : Val, d.isJson = true →
    ∀ v, SemFull.expr d e = some v → v.isJson = true
  | .mk h ls, hc, d, hd, v, hv => by
    simp only [SemFull.expr] at hv; simp only [SemFull.exprOk, Bool.and_eq_true] at hc
    cases hn : SemFull.nud d h with
    | none => simp [hn] at hv
    | some w =>
      simp only [hn] at hv
      exact leds_jsonF ls hc.2 d w hd (nud_jsonF h hc.1 d hd w hn) v hv
theorem leds_jsonF : ∀ ls : List Led, SemFull.ledsOk ls = true → ∀ d lv : Val, d.isJson = true →
    lv.isJson = true → ∀ v, SemFull.leds d lv ls = some v → v.isJson = true
  | [], _, d, lv, hd, hl, v, hv => by simp [SemFull.leds] at hv; subst hv; exact hl
  | l :: ls, hc, d, lv, hd, hl, v, hv => by
    simp only [SemFull.leds] at hv; simp only [SemFull.ledsOk, Bool.and_eq_true] at hc
    cases hn : SemFull.led d lv l with
    | none => simp [hn] at hv
    | some w =>
      simp only [hn] at hv
      exact leds_jsonF ls hc.2 d w hd (led_jsonF l hc.1 d lv hd hl w hn) v hv
theorem exprs_jsonF : ∀ es : List Expr, SemFull.exprsOk es = true → ∀ d : Val, d.isJson = true →
    ∀ vs, SemFull.exprs d es = some vs → ∀ v ∈ vs, v.isJson = true
  | [], _, d, hd, vs, hv => by simp [SemFull.exprs] at hv; subst hv; simp
  | e :: es, hc, d, hd, vs, hv => by
    simp only [SemFull.exprs] at hv; simp only [SemFull.exprsOk, Bool.and_eq_true] at hc
    cases he : SemFull.expr d e with
    | none => simp [he] at hv
    | some w =>
      simp only [he] at hv
      cases hes : SemFull.exprs d es with
      | none => simp [hes] at hv
      | some ws =>
        simp only [hes, Option.map_some, Option.some.injEq] at hv
        subst hv
        intro v hv
        rcases List.mem_cons.mp hv with rfl | hv
        · exact expr_jsonF e hc.1 d hd _ he
        · exact exprs_jsonF es hc.2 d hd ws hes v hv
theorem kvs_jsonF : ∀ kvs : List (Bool × String × Expr), SemFull.kvsOk kvs = true → ∀ d : Val,
    d.isJson = true → ∀ acc : List (String × Val), (∀ p ∈ acc, p.2.isJson = true) →
    ∀ m, SemFull.kvs' d kvs acc = some m → ∀ p ∈ m, p.2.isJson = true
  | [], _, d, hd, acc, hacc, m, hm => by simp [SemFull.kvs'] at hm; subst hm; exact hacc
  | (_, k, e) :: r, hc, d, hd, acc, hacc, m, hm => by
    simp only [SemFull.kvs'] at hm; simp only [SemFull.kvsOk, Bool.and_eq_true] at hc
    cases he : SemFull.expr d e with
    | none => simp [he] at hm
    | some w =>
      simp only [he] at hm
      exact kvs_jsonF r hc.2 d hd _ (insertKV_json (expr_jsonF e hc.1 d hd w he) hacc) m hm
theorem nud_fn_jsonF : ∀ h : Nud, ∀ e, h = .expref e → SemFull.exprOk e = true → ∀ x : Val,
    x.isJson = true → ∀ y, SemFull.expr x e = some y → y.isJson = true
  | .expref e => fun e' he hok => by cases he; exact expr_jsonF e hok
  | .at => fun _ he => nomatch he
  | .field _ => fun _ he => nomatch he
  | .qfield _ => fun _ he => nomatch he
  | .call _ _ => fun _ he => nomatch he
  | .lit _ => fun _ he => nomatch he
  | .star _ => fun _ he => nomatch he
  | .idx _ => fun _ he => nomatch he
  | .slice _ _ => fun _ he => nomatch he
  | .wildIdx _ => fun _ he => nomatch he
  | .mlist _ => fun _ he => nomatch he
  | .flatten _ => fun _ he => nomatch he
  | .mhash _ => fun _ he => nomatch he
  | .not _ => fun _ he => nomatch he
  | .filter _ _ => fun _ he => nomatch he
  | .paren _ => fun _ he => nomatch he
theorem args_jsonF : ∀ (es : List Expr) (name : String) (i : Nat), SemFull.argsOk name i es = true →
    ∀ d : Val, d.isJson = true → ∀ as, SemFull.args d es = some as → ArgsJson as
  | [], _, _, _, d, _, as, has => by
    simp [SemFull.args] at has; subst has; intro a ha; simp at ha
  | (.mk h ls) :: rest, name, i, hok, d, hd, as, has =>
    args_cons_json h ls rest (nud_jsonF h) (nud_fn_jsonF h) (leds_jsonF ls) (args_jsonF rest)
      name i hok d hd as has
end

#print axioms expr_jsonF
#print axioms args_jsonF

end JmesVerif
