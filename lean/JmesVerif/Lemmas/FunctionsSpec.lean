import JmesVerif.Spec.Functions
import JmesVerif.Lemmas.Builtins
import JmesVerif.Lemmas.SumAvg
import JmesVerif.Lemmas.Compositional
/-!
# Every builtin meets the function specification (`Spec/Functions.lean`)

Part A: the order of the specification (`Spec.Fn.Le`) is the order the code sorts by (`vle`) on what
the signatures accept.  Part B: the 22 builtins that take no expression reference, one lemma each
(`spec_abs` … `spec_values`), collected in `pure_meets_spec`.  Part C: `map`, `sort_by`, `max_by`,
`min_by` against the evaluation of the reference (`evalRef`).  Part D: `callFn_meets_spec` and
`valid_call_outcomes`.
-/
namespace JmesVerif
open Spec.Fn

/-! ## A. the two orders -/

theorem le_str_iff (x y : String) : vle (.str x) (.str y) = true ↔ Le (.str x) (.str y) := by
  show _ ↔ x.toList ≤ y.toList
  rw [← List.not_lt, ← cmp_str_lt y x, vle]
  have : Val.cmp (.str x) (.str y) = .gt ↔ Val.cmp (.str y) (.str x) = .lt := by
    show compare x y = .gt ↔ compare y x = .lt
    exact Std.OrientedCmp.gt_iff_lt
  rw [← this]
  cases Val.cmp (.str x) (.str y) <;> simp

theorem le_num_iff (x y : Num) (h : BothFinite x y) :
    vle (.num x) (.num y) = true ↔ Le (.num x) (.num y) := by
  rw [vle_num x y h]
  simp [Le, numVal]

theorem vle_iff_le {xs : List Val} (h : Homog xs) {a b : Val} (ha : a ∈ xs) (hb : b ∈ xs) :
    vle a b = true ↔ Le a b := by
  rcases h with h | h
  · obtain ⟨x, rfl⟩ := h a ha
    obtain ⟨y, rfl⟩ := h b hb
    exact le_str_iff x y
  · obtain ⟨x, rfl, hx⟩ := h a ha
    obtain ⟨y, rfl, hy⟩ := h b hb
    exact le_num_iff x y ⟨hx, hy⟩

/-- a stable ascending permutation in the code's order is one in the specification's order -/
theorem stableAscending_of_vle {α : Type} (key : α → Val) (xs ys : List α) (hH : Homog (xs.map key))
    (hp : ys.Perm xs) (hs : ys.Pairwise (fun a b => vle (key a) (key b) = true))
    (hst : ∀ a b, vle (key a) (key b) = true → [a, b].Sublist xs → [a, b].Sublist ys) :
    StableAscending key xs ys := by
  refine ⟨hp, ?_, ?_⟩
  · refine hs.imp_of_mem ?_
    intro a b ha hb hab
    exact (vle_iff_le hH (List.mem_map_of_mem (hp.subset ha)) (List.mem_map_of_mem (hp.subset hb))).1 hab
  · intro a b hab hsub
    have ha : a ∈ xs := hsub.subset (by simp)
    have hb : b ∈ xs := hsub.subset (by simp)
    exact hst a b ((vle_iff_le hH (List.mem_map_of_mem ha) (List.mem_map_of_mem hb)).2 hab) hsub

/-! ## B. the builtins that take no expression reference -/

theorem numOfF64_ok {f : F64} {msg : String} {v : Val} (h : numOfF64 f msg = .ok v) :
    f.isFinite = true ∧ v = .num (.flt f) := by
  unfold numOfF64 at h
  split at h
  · rename_i hf
    simp only [Except.ok.injEq] at h
    exact ⟨hf, h.symm⟩
  · cases h

theorem spec_abs (args : List Val) (off : Nat) (hv : Builtin.abs.sig.validate args off = .ok ())
    (hwf : ∀ a ∈ args, WellFormed a) (v : Val) (h : Builtin.pure .abs args = .ok v) : absSpec args v := by
  simp only [Builtin.sig, validate_one, isValid_number] at hv
  obtain ⟨a, rfl, n, rfl⟩ := hv
  have hg : Genuine n := hwf (.num n) (by simp)
  obtain ⟨hf, rfl⟩ := numOfF64_ok (show numOfF64 n.toF64.abs _ = .ok v from h)
  exact ⟨_, rfl, hf, (F64.abs_spec n.toF64 hg.1).2⟩

theorem spec_floor (args : List Val) (off : Nat) (hv : Builtin.floor.sig.validate args off = .ok ())
    (hwf : ∀ a ∈ args, WellFormed a) (v : Val) (h : Builtin.pure .floor args = .ok v) : floorSpec args v := by
  simp only [Builtin.sig, validate_one, isValid_number] at hv
  obtain ⟨a, rfl, n, rfl⟩ := hv
  have hg : Genuine n := hwf (.num n) (by simp)
  obtain ⟨hf, rfl⟩ := numOfF64_ok (show numOfF64 n.toF64.floor _ = .ok v from h)
  exact ⟨_, rfl, hf, (F64.floor_spec n.toF64 hg.2 hg.1).2⟩

theorem spec_ceil (args : List Val) (off : Nat) (hv : Builtin.ceil.sig.validate args off = .ok ())
    (hwf : ∀ a ∈ args, WellFormed a) (v : Val) (h : Builtin.pure .ceil args = .ok v) : ceilSpec args v := by
  simp only [Builtin.sig, validate_one, isValid_number] at hv
  obtain ⟨a, rfl, n, rfl⟩ := hv
  have hg : Genuine n := hwf (.num n) (by simp)
  obtain ⟨hf, rfl⟩ := numOfF64_ok (show numOfF64 n.toF64.ceil _ = .ok v from h)
  exact ⟨_, rfl, hf, (F64.ceil_spec' n.toF64 hg.2 hg.1).2⟩

/-! ### `sum` / `avg` -/

theorem add_nonfinite (a b : F64) (h : a.isFinite = false) : (F64.add a b).isFinite = false := by
  cases a <;> cases b <;> simp [F64.add, F64.isFinite] at h ⊢
  rename_i s t
  by_cases hst : s = t <;> simp [hst]

theorem foldl_add_nonfinite (xs : List Val) : ∀ acc : F64, acc.isFinite = false →
    (xs.foldl (fun acc v => F64.add acc ((valNum v).getD F64.zero)) acc).isFinite = false := by
  induction xs with
  | nil => intro acc h; exact h
  | cons x xs ih => intro acc h; exact ih _ (add_nonfinite acc _ h)

/-- the fold of `sum`, whenever its result is finite, is an `IeeeSum` (every partial sum was finite) -/
theorem ieeeSum_foldl (xs : List Val) : ∀ acc : F64, acc.isFinite = true →
    (∀ x ∈ xs, ∃ n, x = .num n ∧ n.toF64.isFinite = true) →
    (xs.foldl (fun acc v => F64.add acc ((valNum v).getD F64.zero)) acc).isFinite = true →
    IeeeSum acc xs (xs.foldl (fun acc v => F64.add acc ((valNum v).getD F64.zero)) acc) := by
  induction xs with
  | nil => intro acc _ _ _; exact .nil acc
  | cons x xs ih =>
    intro acc ha hx hfin
    obtain ⟨n, rfl, hn⟩ := hx x (by simp)
    simp only [List.foldl_cons] at hfin ⊢
    have hs : (F64.add acc ((valNum (.num n)).getD F64.zero)).isFinite = true := by
      cases hc : (F64.add acc ((valNum (.num n)).getD F64.zero)).isFinite with
      | true => rfl
      | false => rw [foldl_add_nonfinite xs _ hc] at hfin; cases hfin
    exact .cons acc n xs _ _ (F64.add_ieee acc n.toF64 ha hn) hs
      (ih _ hs (fun y hy => hx y (by simp [hy])) hfin)

theorem nums_of_valid (xs : List Val) (hx : ∀ x ∈ xs, ArgT.isValid .number x = true)
    (hwf : WellFormed (.arr xs)) : ∀ x ∈ xs, ∃ n, x = .num n ∧ n.toF64.isFinite = true := by
  intro x hm
  obtain ⟨n, rfl⟩ := (isValid_number x).1 (hx x hm)
  exact ⟨n, rfl, (hwf n hm).1⟩

theorem spec_sum (args : List Val) (off : Nat) (hv : Builtin.sum.sig.validate args off = .ok ())
    (hwf : ∀ a ∈ args, WellFormed a) (v : Val) (h : Builtin.pure .sum args = .ok v) : sumSpec args v := by
  simp only [Builtin.sig, validate_one, arrNum, isValid_typedArray] at hv
  obtain ⟨a, rfl, xs, rfl, hx⟩ := hv
  obtain ⟨hf, rfl⟩ := numOfF64_ok (show numOfF64 (sumF64 xs) _ = .ok v from h)
  exact ⟨_, rfl, hf, ieeeSum_foldl xs F64.zero rfl (nums_of_valid xs hx (hwf (.arr xs) (by simp))) hf⟩

theorem div_finite_left (a b : F64) (hb : b.isFinite = true) (h : (F64.div a b).isFinite = true) :
    a.isFinite = true := by
  cases a <;> cases b <;> simp_all [F64.div, F64.isFinite]

theorem spec_avg (args : List Val) (off : Nat) (hv : Builtin.avg.sig.validate args off = .ok ())
    (hwf : ∀ a ∈ args, WellFormed a) (v : Val) (h : Builtin.pure .avg args = .ok v) : avgSpec args v := by
  simp only [Builtin.sig, validate_one, arrNum, isValid_typedArray] at hv
  obtain ⟨a, rfl, xs, rfl, hx⟩ := hv
  by_cases he : xs = []
  · subst he
    left
    refine ⟨rfl, ?_⟩
    simpa [Builtin.pure] using h.symm
  · right
    rw [avg_nonempty xs he] at h
    obtain ⟨hf, rfl⟩ := numOfF64_ok h
    refine ⟨he, _, rfl, hf, ?_⟩
    intro hl
    have hL := F64.ofNat_exact xs.length hl
    have hpos : 0 < xs.length := List.length_pos_iff.2 he
    have hz := F64.isZero_ofNat hpos hl
    have hs : (sumF64 xs).isFinite = true := div_finite_left _ _ hL.1 hf
    refine ⟨sumF64 xs, ieeeSum_foldl xs F64.zero rfl (nums_of_valid xs hx (hwf (.arr xs) (by simp))) hs, ?_⟩
    have := F64.div_ieee (sumF64 xs) (F64.ofNat xs.length) hs hL.1 hz
    rw [hL.2] at this
    exact this

/-! ### `contains` / `starts_with` / `ends_with` / `join` / `length` / `reverse` -/

theorem spec_contains (args : List Val) (off : Nat) (hv : Builtin.contains.sig.validate args off = .ok ())
    (v : Val) (h : Builtin.pure .contains args = .ok v) : containsSpec args v := by
  simp only [Builtin.sig, validate_two] at hv
  obtain ⟨a, b, rfl, ha, _⟩ := hv
  cases a <;> simp [ArgT.isValid, anyValid, Val.type] at ha
  · rename_i s
    cases b
    case str n =>
      simp only [Builtin.pure, Except.ok.injEq] at h
      subst h
      exact ⟨_, rfl, isInfix_iff _ _⟩
    all_goals
      simp only [Builtin.pure, Except.ok.injEq] at h
      exact h.symm
  · rename_i xs
    simp only [Builtin.pure, Except.ok.injEq] at h
    subst h
    exact ⟨_, rfl, by simp [List.any_eq_true]⟩

theorem spec_startsWith (args : List Val) (off : Nat) (hv : Builtin.startsWith.sig.validate args off = .ok ())
    (v : Val) (h : Builtin.pure .startsWith args = .ok v) : startsWithSpec args v := by
  simp only [Builtin.sig, validate_two, isValid_string] at hv
  obtain ⟨a, b, rfl, ⟨s, rfl⟩, ⟨t, rfl⟩⟩ := hv
  simp only [Builtin.pure, Except.ok.injEq] at h
  subst h
  refine ⟨_, rfl, ?_⟩
  rw [List.isPrefixOf_iff_prefix]
  constructor
  · rintro ⟨suf, h⟩; exact ⟨suf, h.symm⟩
  · rintro ⟨suf, h⟩; exact ⟨suf, h.symm⟩

theorem spec_endsWith (args : List Val) (off : Nat) (hv : Builtin.endsWith.sig.validate args off = .ok ())
    (v : Val) (h : Builtin.pure .endsWith args = .ok v) : endsWithSpec args v := by
  simp only [Builtin.sig, validate_two, isValid_string] at hv
  obtain ⟨a, b, rfl, ⟨s, rfl⟩, ⟨t, rfl⟩⟩ := hv
  simp only [Builtin.pure, Except.ok.injEq] at h
  subst h
  refine ⟨_, rfl, ?_⟩
  rw [List.isPrefixOf_iff_prefix, List.reverse_prefix]
  constructor
  · rintro ⟨pre, h⟩; exact ⟨pre, h.symm⟩
  · rintro ⟨pre, h⟩; exact ⟨pre, h.symm⟩

theorem strs_of_valid (xs : List Val) (hx : ∀ x ∈ xs, ∃ s, x = Val.str s) :
    ∃ ss : List String, xs = ss.map .str := by
  induction xs with
  | nil => exact ⟨[], rfl⟩
  | cons x xs ih =>
    obtain ⟨s, rfl⟩ := hx x (by simp)
    obtain ⟨ss, rfl⟩ := ih (fun y hy => hx y (by simp [hy]))
    exact ⟨s :: ss, rfl⟩

theorem spec_join (args : List Val) (off : Nat) (hv : Builtin.join.sig.validate args off = .ok ())
    (v : Val) (h : Builtin.pure .join args = .ok v) : joinSpec args v := by
  simp only [Builtin.sig, validate_two, isValid_string, arrStr, isValid_typedArray] at hv
  obtain ⟨a, b, rfl, ⟨glue, rfl⟩, ⟨xs, rfl, hx⟩⟩ := hv
  obtain ⟨ss, rfl⟩ := strs_of_valid xs hx
  rw [join_eq, Except.ok.injEq] at h
  exact ⟨ss, rfl, h.symm⟩

theorem spec_length (args : List Val) (off : Nat) (hv : Builtin.length.sig.validate args off = .ok ())
    (v : Val) (h : Builtin.pure .length args = .ok v) : lengthSpec args v := by
  simp only [Builtin.sig, validate_one] at hv
  obtain ⟨a, rfl, ha⟩ := hv
  cases a <;> simp [ArgT.isValid, anyValid, Val.type] at ha <;>
    (simp only [Builtin.pure, Except.ok.injEq] at h; exact h.symm)

theorem spec_reverse (args : List Val) (off : Nat) (hv : Builtin.reverse.sig.validate args off = .ok ())
    (v : Val) (h : Builtin.pure .reverse args = .ok v) : reverseSpec args v := by
  simp only [Builtin.sig, validate_one] at hv
  obtain ⟨a, rfl, ha⟩ := hv
  cases a <;> simp [ArgT.isValid, anyValid, Val.type] at ha <;>
    (simp only [Builtin.pure, Except.ok.injEq] at h; exact h.symm)

/-! ### `keys` / `values` / `merge` -/

theorem ne_of_ascending {kvs : List (String × Val)} (h : AscendingKeys kvs) :
    kvs.Pairwise (fun a b => a.1 ≠ b.1) := by
  refine List.Pairwise.imp ?_ h
  intro a b hab heq
  rw [heq] at hab
  exact String.lt_irrefl _ hab

theorem isKeyList_fst (kvs : List (String × Val)) (h : AscendingKeys kvs) :
    IsKeyList kvs (kvs.map (·.1)) := by
  refine ⟨List.pairwise_map.2 h, ?_⟩
  intro k
  rw [Option.isSome_iff_exists]
  simp only [member, lookup_eq_some_iff k _ kvs (ne_of_ascending h), List.mem_map]
  constructor
  · rintro ⟨p, hp, rfl⟩; exact ⟨p.2, hp⟩
  · rintro ⟨x, hx⟩; exact ⟨(k, x), hx, rfl⟩

theorem spec_keys (args : List Val) (off : Nat) (hv : Builtin.keys.sig.validate args off = .ok ())
    (hwf : ∀ a ∈ args, WellFormed a) (v : Val) (h : Builtin.pure .keys args = .ok v) : keysSpec args v := by
  simp only [Builtin.sig, validate_one, isValid_object] at hv
  obtain ⟨a, rfl, kvs, rfl⟩ := hv
  have hs : AscendingKeys kvs := hwf (.obj kvs) (by simp)
  rw [keys_eq, Except.ok.injEq] at h
  refine ⟨kvs.map (·.1), isKeyList_fst kvs hs, ?_⟩
  rw [← h, List.map_map]
  rfl

theorem spec_values (args : List Val) (off : Nat) (hv : Builtin.values.sig.validate args off = .ok ())
    (hwf : ∀ a ∈ args, WellFormed a) (v : Val) (h : Builtin.pure .values args = .ok v) : valuesSpec args v := by
  simp only [Builtin.sig, validate_one, isValid_object] at hv
  obtain ⟨a, rfl, kvs, rfl⟩ := hv
  have hs : AscendingKeys kvs := hwf (.obj kvs) (by simp)
  rw [values_eq_bi, Except.ok.injEq] at h
  refine ⟨kvs.map (·.1), kvs.map (·.2), isKeyList_fst kvs hs, h.symm, ?_⟩
  rw [List.map_map, List.map_map]
  apply List.map_congr_left
  intro p hp
  simp only [Function.comp, member]
  exact (lookup_eq_some_iff p.1 p.2 kvs (ne_of_ascending hs)).2 hp

/-- scanning the arguments from the right for the first object that binds `k` finds the last binding -/
theorem lastBound_findSome (k : String) (args : List Val) :
    LastBound k args (args.reverse.findSome? fun a => match a with
      | .obj kvs => Val.lookup k kvs
      | _ => none) := by
  induction args with
  | nil => exact .inr ⟨rfl, by simp⟩
  | cons a rest ih =>
    rw [List.reverse_cons, List.findSome?_append]
    rcases ih with ⟨pre, kvs, suf, x, he, hk, hr, hn⟩ | ⟨hr, hn⟩
    · rw [hr]
      exact .inl ⟨a :: pre, kvs, suf, x, by rw [he]; rfl, hk, rfl, hn⟩
    · rw [hr]
      simp only [Option.none_or, List.findSome?_cons, List.findSome?_nil]
      cases a with
      | obj kvs =>
        cases hl : Val.lookup k kvs with
        | some x => exact .inl ⟨[], kvs, rest, x, rfl, hl, by simp [hl], hn⟩
        | none =>
          refine .inr ⟨by simp [hl], ?_⟩
          intro kvs' hm
          simp only [List.mem_cons, Val.obj.injEq] at hm
          rcases hm with rfl | hm
          · exact hl
          · exact hn kvs' hm
      | _ =>
        refine .inr ⟨by simp, ?_⟩
        intro kvs' hm
        simp only [List.mem_cons] at hm
        rcases hm with hm | hm
        · cases hm
        · exact hn kvs' hm

theorem spec_merge (args : List Val) (hwf : ∀ a ∈ args, WellFormed a) (v : Val)
    (h : Builtin.pure .merge args = .ok v) : mergeSpec args v := by
  have hs : ∀ kvs, Val.obj kvs ∈ args → SortedKeys kvs := fun kvs hm => hwf _ hm
  refine ⟨mergeObjs [] args, ?_, merge_sorted args, ?_⟩
  · obtain ⟨m, hm, _⟩ := merge_lookup "" args
    rw [hm] at h
    have : Builtin.pure .merge args = .ok (.obj (mergeObjs [] args)) := by simp [Builtin.pure]
    rw [this, Except.ok.injEq] at hm
    rw [Except.ok.injEq] at h
    rw [← h, ← hm]
  · intro k
    have : member k (mergeObjs [] args) = lastBinding k args := by
      simp only [member]
      rw [mergeObjs_lookup]
      simp [Val.lookup]
    rw [this, lastBinding_sorted k args hs]
    exact lastBound_findSome k args

/-! ### `max` / `min` / `sort` -/

theorem fin_of_wf {args : List Val} (hwf : ∀ a ∈ args, WellFormed a) :
    ∀ xs n, args = [.arr xs] → Val.num n ∈ xs → n.toF64.isFinite = true := by
  intro xs n he hm
  subst he
  exact (hwf (.arr xs) (by simp) n hm).1

theorem spec_max (args : List Val) (off : Nat) (hv : Builtin.max.sig.validate args off = .ok ())
    (hwf : ∀ a ∈ args, WellFormed a) (v : Val) (h : Builtin.pure .max args = .ok v) : maxSpec args v := by
  obtain ⟨xs, w, rfl, hp, hr⟩ := max_spec args off hv (fin_of_wf hwf)
  rw [hp, Except.ok.injEq] at h
  subst h
  simp only [Builtin.sig, validate_one] at hv
  obtain ⟨a, ha, hval⟩ := hv
  cases ha
  have hH := homog_of_valid xs hval (fun n hn => fin_of_wf hwf xs n rfl hn)
  rcases hr with hr | ⟨hm, hall, _⟩
  · exact .inl hr
  · exact .inr ⟨hm, fun x hx => (vle_iff_le hH hx hm).1 (hall x hx)⟩

theorem spec_min (args : List Val) (off : Nat) (hv : Builtin.min.sig.validate args off = .ok ())
    (hwf : ∀ a ∈ args, WellFormed a) (v : Val) (h : Builtin.pure .min args = .ok v) : minSpec args v := by
  obtain ⟨xs, w, rfl, hp, hr⟩ := min_spec args off hv (fin_of_wf hwf)
  rw [hp, Except.ok.injEq] at h
  subst h
  simp only [Builtin.sig, validate_one] at hv
  obtain ⟨a, ha, hval⟩ := hv
  cases ha
  have hH := homog_of_valid xs hval (fun n hn => fin_of_wf hwf xs n rfl hn)
  rcases hr with hr | ⟨hm, hall, _⟩
  · exact .inl hr
  · exact .inr ⟨hm, fun x hx => (vle_iff_le hH hm hx).1 (hall x hx)⟩

theorem spec_sort (args : List Val) (off : Nat) (hv : Builtin.sort.sig.validate args off = .ok ())
    (hwf : ∀ a ∈ args, WellFormed a) (v : Val) (h : Builtin.pure .sort args = .ok v) : sortSpec args v := by
  obtain ⟨xs, ys, rfl, hp, hperm, hsorted, hstable⟩ := sort_spec args off hv (fin_of_wf hwf)
  rw [hp, Except.ok.injEq] at h
  subst h
  simp only [Builtin.sig, validate_one] at hv
  obtain ⟨a, ha, hval⟩ := hv
  cases ha
  have hH := homog_of_valid xs hval (fun n hn => fin_of_wf hwf xs n rfl hn)
  exact ⟨ys, rfl, stableAscending_of_vle id xs ys (by simpa using hH) hperm hsorted hstable⟩

/-! ### `not_null` / `to_array` / `to_string` / `to_number` / `type` -/

theorem spec_notNull (args : List Val) (v : Val) (h : Builtin.pure .notNull args = .ok v) :
    notNullSpec args v := by
  rcases notNull_spec args with ⟨pre, w, suf, he, hp, hw, hr⟩ | ⟨hall, hr⟩
  · rw [hr, Except.ok.injEq] at h
    subst h
    exact .inl ⟨pre, suf, he, hp, hw⟩
  · rw [hr, Except.ok.injEq] at h
    exact .inr ⟨hall, h.symm⟩

theorem spec_toArray (args : List Val) (off : Nat) (hv : Builtin.toArray.sig.validate args off = .ok ())
    (v : Val) (h : Builtin.pure .toArray args = .ok v) : toArraySpec args v := by
  simp only [Builtin.sig, validate_one] at hv
  obtain ⟨a, rfl, _⟩ := hv
  cases a <;> (simp only [Builtin.pure, Except.ok.injEq] at h; exact h.symm)

theorem spec_toString (args : List Val) (off : Nat) (hv : Builtin.toString.sig.validate args off = .ok ())
    (v : Val) (h : Builtin.pure .toString args = .ok v) : toStringSpec args v := by
  simp only [Builtin.sig, validate_one] at hv
  obtain ⟨a, rfl, _⟩ := hv
  cases a <;> (simp only [Builtin.pure, Except.ok.injEq] at h; exact h.symm)

/-- **the one class of calls on which the implementation departs from the specification**: `to_number`
of a string that is a number token *padded with JSON whitespace* (`" 1 "`, `"\t1e2\n"`) returns the
number (`Variable::from_json` reads a whole JSON text, which may be padded) where `json-number` does not
match and the specification gives `null` -/
def ToNumberPadded (b : Builtin) (args : List Val) : Prop :=
  b = .toNumber ∧ ∃ s n, args = [.str s] ∧ JsonText.parse s.toList = some (.num n) ∧
    ∃ c ∈ s.toList, isJsonWs c

theorem spec_toNumber (args : List Val) (off : Nat) (hv : Builtin.toNumber.sig.validate args off = .ok ())
    (hdev : ¬ ToNumberPadded .toNumber args)
    (v : Val) (h : Builtin.pure .toNumber args = .ok v) : toNumberSpec args v := by
  simp only [Builtin.sig, validate_one] at hv
  obtain ⟨a, rfl, -⟩ := hv
  cases a
  case str s =>
    simp only [Builtin.pure] at h
    split at h
    · rename_i n hn
      rw [Except.ok.injEq] at h
      exact .inl ⟨n, ⟨hn, fun c hc hw => hdev ⟨rfl, s, n, rfl, hn, c, hc, hw⟩⟩, h.symm⟩
    · rename_i hn
      rw [Except.ok.injEq] at h
      exact .inr ⟨fun n hp => hn n hp.1, h.symm⟩
  all_goals (simp only [Builtin.pure, Except.ok.injEq] at h; exact h.symm)

/-- the deviation is real: `to_number(" 1 ")` is `1`, which the specification does not allow -/
theorem toNumber_padded_deviation :
    Builtin.pure .toNumber [.str " 1 "] = .ok (.num (.pos 1)) ∧
    ToNumberPadded .toNumber [.str " 1 "] ∧
    ¬ toNumberSpec [.str " 1 "] (.num (.pos 1)) := by
  refine ⟨rfl, ⟨rfl, " 1 ", .pos 1, rfl, rfl, ' ', by decide, .inl rfl⟩, ?_⟩
  rintro (⟨n, ⟨_, hws⟩, _⟩ | ⟨_, h⟩)
  · exact hws ' ' (by decide) (.inl rfl)
  · cases h

theorem typeName_eq (a : Val) : a.type.name = typeName a := by cases a <;> rfl

theorem spec_type (args : List Val) (off : Nat) (hv : Builtin.type.sig.validate args off = .ok ())
    (v : Val) (h : Builtin.pure .type args = .ok v) : typeSpec args v := by
  simp only [Builtin.sig, validate_one] at hv
  obtain ⟨a, rfl, _⟩ := hv
  rw [type_eq, Except.ok.injEq] at h
  show v = .str (typeName a)
  rw [← h, typeName_eq]

/-- **the 22 builtins without expression reference meet the specification** -/
theorem pure_meets_spec (b : Builtin) (hb : b.usesExpref = false) (args : List Val) (off : Nat)
    (hv : b.sig.validate args off = .ok ()) (hwf : ∀ a ∈ args, WellFormed a)
    (hdev : ¬ ToNumberPadded b args) (ev : Ev) (v : Val)
    (h : b.pure args = .ok v) : result b args ev v := by
  cases b
  case map | sortBy | maxBy | minBy => simp [Builtin.usesExpref] at hb
  case abs => exact spec_abs args off hv hwf v h
  case avg => exact spec_avg args off hv hwf v h
  case ceil => exact spec_ceil args off hv hwf v h
  case contains => exact spec_contains args off hv v h
  case endsWith => exact spec_endsWith args off hv v h
  case floor => exact spec_floor args off hv hwf v h
  case join => exact spec_join args off hv v h
  case keys => exact spec_keys args off hv hwf v h
  case length => exact spec_length args off hv v h
  case min => exact spec_min args off hv hwf v h
  case max => exact spec_max args off hv hwf v h
  case merge => exact spec_merge args hwf v h
  case notNull => exact spec_notNull args v h
  case reverse => exact spec_reverse args off hv v h
  case sort => exact spec_sort args off hv hwf v h
  case startsWith => exact spec_startsWith args off hv v h
  case sum => exact spec_sum args off hv hwf v h
  case toArray => exact spec_toArray args off hv v h
  case toNumber => exact spec_toNumber args off hv hdev v h
  case toString => exact spec_toString args off hv v h
  case type => exact spec_type args off hv v h
  case values => exact spec_values args off hv hwf v h

/-! ## C. `map` / `sort_by` / `max_by` / `min_by` against the evaluation of the reference -/

/-- the value of the expression reference `a` on the element `x` within the fuel budget `fuel`
(`none`: an error, or the budget exceeded); the offset register does not influence it
(`interp_offset_irrelevant`) -/
def evalRef (rt : Registry) (fuel : Nat) : Ev := fun a x =>
  match interp rt fuel x a 0 with
  | .ok (v, _) => some v
  | .error _ => none

/-- a successful evaluation at any smaller budget and any offset is the value `evalRef` reports -/
theorem evalRef_of_interp (rt : Registry) {f F : Nat} {x : Val} {a : Ast} {o o' : Nat} {v : Val}
    (h : interp rt f x a o = .ok (v, o')) (hle : f ≤ F) : evalRef rt F a x = some v := by
  have h1 := interp_mono rt f x a o _ h (by simp) F hle
  have h2 := (interp_reoffset rt F x a o 0).1 v o' h1
  simp [evalRef, h2]

theorem evalRef_mono (rt : Registry) {f F : Nat} {x : Val} {a : Ast} {v : Val}
    (h : evalRef rt f a x = some v) (hle : f ≤ F) : evalRef rt F a x = some v := by
  simp only [evalRef] at h
  split at h
  · rename_i w o hi
    cases h
    exact evalRef_of_interp rt hi hle
  · cases h

theorem mapExpref_ev (rt : Registry) (a : Ast) (F : Nat) : ∀ (fuel : Nat) (xs : List Val) (off : Nat)
    (ys : List Val) (off' : Nat), mapExpref rt fuel xs a off = .ok (ys, off') → fuel ≤ F →
      xs.map (evalRef rt F a) = ys.map some := by
  intro fuel
  induction fuel with
  | zero => intro xs off ys off' h; simp [mapExpref] at h
  | succ fuel ih =>
    intro xs off ys off' h hle
    cases xs with
    | nil =>
      simp only [mapExpref, Except.ok.injEq, Prod.mk.injEq] at h
      obtain ⟨rfl, _⟩ := h
      rfl
    | cons x rest =>
      rw [mapExpref_cons] at h
      split at h
      · simp at h
      · rename_i v o hi
        split at h
        · simp at h
        · rename_i vs o' hk
          simp only [Except.ok.injEq, Prod.mk.injEq] at h
          obtain ⟨rfl, _⟩ := h
          simp only [List.map_cons, evalRef_of_interp rt hi (by omega : fuel ≤ F),
            ih rest _ _ _ hk (by omega)]

theorem keysTyped_ev (rt : Registry) (a : Ast) (ty : JType) (F : Nat) : ∀ (fuel : Nat) (xs : List Val)
    (inv off : Nat) (ks : List Val) (off' : Nat),
    keysTyped rt fuel xs a ty inv off = .ok (ks, off') → fuel ≤ F →
      xs.map (evalRef rt F a) = ks.map some := by
  intro fuel
  induction fuel with
  | zero => intro xs inv off ks off' h; simp [keysTyped] at h
  | succ fuel ih =>
    intro xs inv off ks off' h hle
    cases xs with
    | nil =>
      simp only [keysTyped, Except.ok.injEq, Prod.mk.injEq] at h
      obtain ⟨rfl, _⟩ := h
      rfl
    | cons x rest =>
      simp only [keysTyped] at h
      split at h
      · simp at h
      · rename_i v o hi
        split at h
        · simp at h
        · split at h
          · simp at h
          · rename_i vs o' hk
            simp only [Except.ok.injEq, Prod.mk.injEq] at h
            obtain ⟨rfl, _⟩ := h
            simp only [List.map_cons, evalRef_of_interp rt hi (by omega : fuel ≤ F),
              ih rest _ _ _ _ hk (by omega)]

theorem spec_map (rt : Registry) (fuel : Nat) (args : List Val) (off : Nat)
    (hv : Builtin.map.sig.validate args off = .ok ()) (v : Val) (off' : Nat)
    (h : callFn rt fuel (.builtin .map) args off = .ok (v, off')) :
    mapSpec (evalRef rt fuel) args v := by
  cases fuel with
  | zero => simp [callFn] at h
  | succ fuel =>
    simp only [Builtin.sig, validate_two, isValid_expref, isValid_array] at hv
    obtain ⟨x, y, rfl, ⟨a, rfl⟩, ⟨xs, rfl⟩⟩ := hv
    rw [callFn_map] at h
    split at h
    · simp at h
    · rename_i vs o hm
      simp only [Except.ok.injEq, Prod.mk.injEq] at h
      exact ⟨vs, h.1.symm, mapExpref_ev rt a (fuel + 1) fuel xs off vs o hm (by omega)⟩

/-- keys of one type, string or number, the numbers finite: the code's `Homog` and the
specification's `SameKind` -/
theorem keys_homog (k0 : Val) (ks : List Val) (hty : k0.type = .string ∨ k0.type = .number)
    (hks : ∀ k ∈ ks, k.type = k0.type)
    (hfin : ∀ n, Val.num n ∈ k0 :: ks → n.toF64.isFinite = true) :
    Homog (k0 :: ks) ∧ SameKind (k0 :: ks) := by
  have hall : ∀ k ∈ k0 :: ks, k.type = k0.type := by
    intro k hk
    simp only [List.mem_cons] at hk
    rcases hk with rfl | hk
    · rfl
    · exact hks k hk
  rcases hty with hty | hty
  · have : ∀ k ∈ k0 :: ks, ∃ s, k = Val.str s := by
      intro k hk
      have := hall k hk
      rw [hty] at this
      cases k <;> simp_all [Val.type]
    exact ⟨.inl this, .inl this⟩
  · have : ∀ k ∈ k0 :: ks, ∃ n, k = Val.num n := by
      intro k hk
      have := hall k hk
      rw [hty] at this
      cases k <;> simp_all [Val.type]
    refine ⟨.inr ?_, .inr this⟩
    intro k hk
    obtain ⟨n, rfl⟩ := this k hk
    exact ⟨n, rfl, hfin n hk⟩

/-- what the three key-taking builtins have in hand after their key loop -/
theorem keys_facts (rt : Registry) (fuel : Nat) (x : Val) (rest : List Val) (a : Ast) (off off1 off2 : Nat)
    (k0 : Val) (ks : List Val) (h1 : interp rt fuel x a off = .ok (k0, off1))
    (hty : ¬ (k0.type ≠ .string ∧ k0.type ≠ .number))
    (h2 : keysTyped rt fuel rest a k0.type 1 off1 = .ok (ks, off2))
    (hkeys : ∀ y ∈ x :: rest, ∀ n, evalRef rt (fuel + 1) a y = some (.num n) → n.toF64.isFinite = true) :
    (x :: rest).map (evalRef rt (fuel + 1) a) = (k0 :: ks).map some ∧
    (k0.type = .string ∨ k0.type = .number) ∧ ks.length = rest.length ∧
    Homog (k0 :: ks) ∧ SameKind (k0 :: ks) := by
  have hty' : k0.type = .string ∨ k0.type = .number := by
    by_cases h : k0.type = .string
    · exact .inl h
    · by_cases h' : k0.type = .number
      · exact .inr h'
      · exact absurd ⟨h, h'⟩ hty
  have hev : (x :: rest).map (evalRef rt (fuel + 1) a) = (k0 :: ks).map some := by
    simp only [List.map_cons, evalRef_of_interp rt h1 (by omega : fuel ≤ fuel + 1),
      keysTyped_ev rt a _ (fuel + 1) fuel rest _ _ _ _ h2 (by omega)]
  obtain ⟨hl, hks⟩ := keysTyped_spec rt a _ fuel rest _ _ _ _ h2
  refine ⟨hev, hty', hl, keys_homog k0 ks hty' hks ?_⟩
  intro n hn
  obtain ⟨i, hi, hget⟩ := List.getElem_of_mem hn
  have hlen : (x :: rest).length = (k0 :: ks).length := by simp [hl]
  have hi' : i < (x :: rest).length := by omega
  have := congrArg (fun l => l[i]?) hev
  simp only [List.getElem?_map, List.getElem?_eq_getElem hi, List.getElem?_eq_getElem hi',
    Option.map_some, hget] at this
  exact hkeys _ (List.getElem_mem hi') n (Option.some.inj this)

theorem spec_sortBy (rt : Registry) (fuel : Nat) (args : List Val) (off : Nat)
    (hv : Builtin.sortBy.sig.validate args off = .ok ())
    (hkeys : ∀ a xs, Val.expref a ∈ args → Val.arr xs ∈ args → ∀ x ∈ xs, ∀ n,
      evalRef rt fuel a x = some (.num n) → n.toF64.isFinite = true)
    (v : Val) (off' : Nat) (h : callFn rt fuel (.builtin .sortBy) args off = .ok (v, off')) :
    sortBySpec (evalRef rt fuel) args v := by
  cases fuel with
  | zero => simp [callFn] at h
  | succ fuel =>
    have hv0 := hv
    simp only [Builtin.sig, validate_two, isValid_expref, isValid_array] at hv
    obtain ⟨x, y, rfl, ⟨xs, rfl⟩, ⟨a, rfl⟩⟩ := hv
    cases xs with
    | nil =>
      simp only [callFn, hv0, Except.ok.injEq, Prod.mk.injEq] at h
      exact ⟨[], [], rfl, .inl (by simp), ⟨by simp, by simp, by simp⟩, h.1.symm⟩
    | cons x rest =>
      simp only [callFn, hv0] at h
      split at h
      · cases h
      · rename_i k0 off1 h1
        split at h
        · cases h
        · rename_i hty
          split at h
          · cases h
          · rename_i ks off2 h2
            simp only [Except.ok.injEq, Prod.mk.injEq] at h
            obtain ⟨hev, hty', hl, hH, hS⟩ := keys_facts rt fuel x rest a off off1 off2 k0 ks h1 hty h2
              (hkeys a (x :: rest) (by simp) (by simp))
            have hH' : Homog (((x :: rest).zip (k0 :: ks)).map (·.2)) := zip_keys_homog x k0 rest ks hl hH
            exact ⟨k0 :: ks, sortPairs ((x :: rest).zip (k0 :: ks)), hev, hS,
              stableAscending_of_vle (·.2) _ _ hH' (sortPairs_perm _) (sortPairs_sorted _ hH')
                (fun p q => sortPairs_stable _ hH' p q), h.1.symm⟩

theorem spec_byExtreme (rt : Registry) (fuel : Nat) (isMax : Bool) (xs : List Val) (a : Ast) (off : Nat)
    (hkeys : ∀ x ∈ xs, ∀ n, evalRef rt (fuel + 1) a x = some (.num n) → n.toF64.isFinite = true)
    (v : Val) (off' : Nat) (h : byExtreme rt fuel isMax xs a off = .ok (v, off')) :
    ∃ ks, xs.map (evalRef rt (fuel + 1) a) = ks.map some ∧ SameKind ks ∧
      ((xs = [] ∧ v = .null) ∨ ∃ p ∈ xs.zip ks, v = p.1 ∧
        ∀ q ∈ xs.zip ks, if isMax then Le q.2 p.2 else Le p.2 q.2) := by
  cases fuel with
  | zero => simp [byExtreme] at h
  | succ fuel =>
    cases xs with
    | nil =>
      simp only [byExtreme, Except.ok.injEq, Prod.mk.injEq] at h
      exact ⟨[], rfl, .inl (by simp), .inl ⟨rfl, h.1.symm⟩⟩
    | cons x rest =>
      rw [byExtreme.eq_def] at h
      simp only at h
      split at h
      · cases h
      · rename_i k0 off1 h1
        split at h
        · cases h
        · rename_i hty
          split at h
          · cases h
          · rename_i ks off2 h2
            obtain ⟨hev, hty', hl, hH, hS⟩ := keys_facts rt fuel x rest a off off1 off2 k0 ks h1 hty h2
              (fun y hy n hn => hkeys y hy n (evalRef_mono rt hn (by omega)))
            have hev' : (x :: rest).map (evalRef rt (fuel + 1 + 1) a) = (k0 :: ks).map some := by
              simp only [List.map_cons, evalRef_of_interp rt h1 (by omega : fuel ≤ fuel + 1 + 1),
                keysTyped_ev rt a _ (fuel + 1 + 1) fuel rest _ _ _ _ h2 (by omega)]
            have hH' : Homog (((x, k0) :: rest.zip ks).map (·.2)) := zip_keys_homog x k0 rest ks hl hH
            simp only [Except.ok.injEq, Prod.mk.injEq] at h
            have hv' : v = (pickExtreme isMax x k0 (rest.zip ks)).1 := h.1.symm
            refine ⟨k0 :: ks, hev', hS, .inr ⟨pickExtreme isMax x k0 (rest.zip ks), ?_, hv', ?_⟩⟩
            · exact pickExtreme_mem isMax x k0 (rest.zip ks)
            · intro q hq
              have hq' : q ∈ (x, k0) :: rest.zip ks := hq
              have hm := pickExtreme_mem isMax x k0 (rest.zip ks)
              cases isMax with
              | true =>
                simp only [if_true]
                exact (vle_iff_le hH' (List.mem_map_of_mem hq') (List.mem_map_of_mem hm)).1
                  (pickMax_extreme x k0 (rest.zip ks) hH' q hq')
              | false =>
                simp only [Bool.false_eq_true, if_false]
                exact (vle_iff_le hH' (List.mem_map_of_mem hm) (List.mem_map_of_mem hq')).1
                  (pickMin_extreme x k0 (rest.zip ks) hH' q hq')

/-! ## D. every builtin, through the validated call -/

/-- **every successful call of every builtin on a valid, well-formed argument list returns a value the
function specification allows** -/
theorem callFn_meets_spec (rt : Registry) (fuel : Nat) (b : Builtin) (args : List Val) (off : Nat)
    (v : Val) (off' : Nat) (hv : b.sig.validate args off = .ok ())
    (hwf : ∀ a ∈ args, WellFormed a)
    (hkeys : ∀ a xs, Val.expref a ∈ args → Val.arr xs ∈ args → ∀ x ∈ xs, ∀ n,
      evalRef rt fuel a x = some (.num n) → n.toF64.isFinite = true)
    (hdev : ¬ ToNumberPadded b args)
    (h : callFn rt fuel (.builtin b) args off = .ok (v, off')) :
    result b args (evalRef rt fuel) v := by
  cases hb : b.usesExpref with
  | false =>
    cases fuel with
    | zero => simp [callFn] at h
    | succ fuel =>
      rw [callFn_pure rt fuel b args off hb, hv] at h
      simp only at h
      cases hp : b.pure args with
      | error e => simp [hp] at h
      | ok w =>
        simp only [hp, Except.ok.injEq, Prod.mk.injEq] at h
        rw [← h.1]
        exact pure_meets_spec b hb args off hv hwf hdev _ w hp
  | true =>
    cases b <;> simp [Builtin.usesExpref] at hb
    case map => exact spec_map rt fuel args off hv v off' h
    case sortBy => exact spec_sortBy rt fuel args off hv hkeys v off' h
    case maxBy =>
      cases fuel with
      | zero => simp [callFn] at h
      | succ fuel =>
        simp only [Builtin.sig, validate_two, isValid_expref, isValid_array] at hv
        obtain ⟨x, y, rfl, ⟨xs, rfl⟩, ⟨a, rfl⟩⟩ := hv
        rw [callFn_maxBy] at h
        obtain ⟨ks, hev, hS, hr⟩ := spec_byExtreme rt fuel true xs a off
          (hkeys a xs (by simp) (by simp)) v off' h
        exact ⟨ks, hev, hS, by simpa using hr⟩
    case minBy =>
      cases fuel with
      | zero => simp [callFn] at h
      | succ fuel =>
        simp only [Builtin.sig, validate_two, isValid_expref, isValid_array] at hv
        obtain ⟨x, y, rfl, ⟨xs, rfl⟩, ⟨a, rfl⟩⟩ := hv
        rw [callFn_minBy] at h
        obtain ⟨ks, hev, hS, hr⟩ := spec_byExtreme rt fuel false xs a off
          (hkeys a xs (by simp) (by simp)) v off' h
        exact ⟨ks, hev, hS, by simpa using hr⟩

/-- **outcomes of a valid call** (builtins without expression reference): a value, with the offset
register unchanged — or, for `abs avg ceil floor sum` only, the internal "not a finite double" error;
never a panic, a runtime error or an exhausted budget -/
theorem valid_call_outcomes (rt : Registry) (fuel : Nat) (b : Builtin) (args : List Val) (off : Nat)
    (hv : b.sig.validate args off = .ok ()) (hb : b.usesExpref = false) :
    (∃ v, callFn rt (fuel + 1) (.builtin b) args off = .ok (v, off)) ∨
    (∃ msg, callFn rt (fuel + 1) (.builtin b) args off = .error (.internal msg) ∧
      b ∈ [Builtin.abs, .avg, .ceil, .floor, .sum]) := by
  rw [callFn_pure rt fuel b args off hb, hv]
  simp only
  cases hp : b.pure args with
  | ok w => exact .inl ⟨w, rfl⟩
  | error e =>
    obtain ⟨⟨msg, rfl⟩, hm⟩ := pure_error_is_internal b args off hv hb e hp
    exact .inr ⟨msg, rfl, hm⟩

/-- on well-formed arguments `abs`, `ceil`, `floor` cannot fail either: the error is left to `sum` and
`avg` (a partial sum or the quotient left the double range: finding F14) -/
theorem valid_call_outcomes_wf (rt : Registry) (fuel : Nat) (b : Builtin) (args : List Val) (off : Nat)
    (hv : b.sig.validate args off = .ok ()) (hb : b.usesExpref = false)
    (hwf : ∀ a ∈ args, WellFormed a) :
    (∃ v, callFn rt (fuel + 1) (.builtin b) args off = .ok (v, off)) ∨
    (∃ msg, callFn rt (fuel + 1) (.builtin b) args off = .error (.internal msg) ∧
      b ∈ [Builtin.avg, .sum]) := by
  rcases valid_call_outcomes rt fuel b args off hv hb with h | ⟨msg, h, hm⟩
  · exact .inl h
  · simp only [List.mem_cons, List.not_mem_nil, or_false] at hm
    have key : ∀ (n : Num), Genuine n → ∀ f : F64, (f = n.toF64.abs ∨ f = n.toF64.ceil ∨ f = n.toF64.floor) →
        f.isFinite = true := by
      intro n hg f hf
      rcases hf with rfl | rfl | rfl
      · exact (F64.abs_spec _ hg.1).1
      · exact (F64.ceil_spec' _ hg.2 hg.1).1
      · exact (F64.floor_spec _ hg.2 hg.1).1
    rcases hm with rfl | rfl | rfl | rfl | rfl
    · exfalso
      have hv' := hv
      simp only [Builtin.sig, validate_one, isValid_number] at hv'
      obtain ⟨a, rfl, n, rfl⟩ := hv'
      rw [callFn_pure rt fuel _ _ off hb, hv] at h
      simp [Builtin.pure, numOfF64, key n (hwf (.num n) (by simp)) _ (.inl rfl)] at h
    · exact .inr ⟨msg, h, by simp⟩
    · exfalso
      have hv' := hv
      simp only [Builtin.sig, validate_one, isValid_number] at hv'
      obtain ⟨a, rfl, n, rfl⟩ := hv'
      rw [callFn_pure rt fuel _ _ off hb, hv] at h
      simp [Builtin.pure, numOfF64, key n (hwf (.num n) (by simp)) _ (.inr (.inl rfl))] at h
    · exfalso
      have hv' := hv
      simp only [Builtin.sig, validate_one, isValid_number] at hv'
      obtain ⟨a, rfl, n, rfl⟩ := hv'
      rw [callFn_pure rt fuel _ _ off hb, hv] at h
      simp [Builtin.pure, numOfF64, key n (hwf (.num n) (by simp)) _ (.inr (.inr rfl))] at h
    · exact .inr ⟨msg, h, by simp⟩

end JmesVerif

#print axioms JmesVerif.pure_meets_spec
#print axioms JmesVerif.callFn_meets_spec
#print axioms JmesVerif.valid_call_outcomes
#print axioms JmesVerif.valid_call_outcomes_wf
#print axioms JmesVerif.toNumber_padded_deviation
