import JmesVerif.Model.JsonText
import JmesVerif.Model.JsonPrint
namespace JmesVerif
namespace JsonRT
open JsonText JsonPrint

theorem isDigit_iff (c : Char) : JsonText.isDigit c = true ↔ 48 ≤ c.toNat ∧ c.toNat ≤ 57 := by
  simp [JsonText.isDigit, Char.le_def, UInt32.le_iff_toNat_le]

theorem isDigit_eq_core (c : Char) : JsonText.isDigit c = c.isDigit := by
  simp [JsonText.isDigit, Char.isDigit, Char.le_def]

theorem one_le_iff (c : Char) : (decide ('1' ≤ c) && decide (c ≤ '9')) = true ↔ 49 ≤ c.toNat ∧ c.toNat ≤ 57 := by
  simp [Char.le_def, UInt32.le_iff_toNat_le]

/-- `rest` cannot continue a JSON number -/
def NumEnd (rest : List Char) : Prop :=
  ∀ c, rest.head? = some c →
    ¬ JsonText.isDigit c = true ∧ c ≠ '.' ∧ c ≠ 'e' ∧ c ≠ 'E' ∧ c ≠ '+' ∧ c ≠ '-'

theorem le_ofDigitChars (ds : List Char) (init : Nat) : init ≤ Nat.ofDigitChars 10 ds init := by
  rw [Nat.ofDigitChars_eq_ofDigitChars_zero]
  have : 1 ≤ 10 ^ ds.length := Nat.one_le_pow _ _ (by decide)
  have := Nat.mul_le_mul_right init this
  omega

/-- the accumulation loop of `parse_integer` reads a digit string whose value fits in u64 -/
theorem digits_loop (ds : List Char) : ∀ (sig : Nat) (rest : List Char),
    (∀ c ∈ ds, JsonText.isDigit c = true) → (∀ c, rest.head? = some c → ¬ JsonText.isDigit c = true) →
    Nat.ofDigitChars 10 ds sig ≤ U64_MAX →
    parseInteger.digits (ds ++ rest) sig = (Nat.ofDigitChars 10 ds sig, false, rest) := by
  induction ds with
  | nil =>
    intro sig rest _ hr _
    cases rest with
    | nil => simp [parseInteger.digits]
    | cons c cs =>
      have := hr c rfl
      simp [parseInteger.digits, this]
  | cons d ds ih =>
    intro sig rest hd hr hle
    have hdd : JsonText.isDigit d = true := hd d (by simp)
    rw [Nat.ofDigitChars_cons] at hle ⊢
    have hv : 10 * sig + (d.toNat - '0'.toNat) = sig * 10 + digitVal d := by
      simp only [digitVal]; omega
    rw [hv] at hle ⊢
    have h1 := le_ofDigitChars ds (sig * 10 + digitVal d)
    have h2 := (isDigit_iff d).1 hdd
    have hv2 : digitVal d = d.toNat - 48 := rfl
    simp only [List.cons_append, parseInteger.digits, hdd, if_true]
    rw [if_neg]
    · exact ih _ rest (fun c hc => hd c (by simp [hc])) hr hle
    · unfold U64_MAX at *
      omega

theorem isDigit_of_mem_toDigits {n : Nat} {c : Char} (h : c ∈ Nat.toDigits 10 n) :
    JsonText.isDigit c = true := by
  rw [isDigit_eq_core]; exact Nat.isDigit_of_mem_toDigits (by decide) (by decide) h

/-- no leading zero -/
theorem toDigits_head (n : Nat) : 0 < n →
    ∃ d0 ds, Nat.toDigits 10 n = d0 :: ds ∧ 49 ≤ d0.toNat ∧ d0.toNat ≤ 57 := by
  induction n using Nat.strongRecOn with
  | _ n ih =>
    intro hn
    rw [Nat.toDigits_eq_if (by decide)]
    split
    · rename_i h
      refine ⟨_, [], rfl, ?_⟩
      rw [Nat.toNat_digitChar_of_lt_ten h]; omega
    · obtain ⟨d0, ds, he, h1⟩ := ih (n / 10) (by omega) (by omega)
      exact ⟨d0, ds ++ [Nat.digitChar (n % 10)], by rw [he]; rfl, h1⟩

theorem parseNumberTail_end (positive : Bool) (n : Nat) (rest : List Char) (hr : NumEnd rest) :
    parseNumberTail positive n rest =
      if positive then some (.u n, rest)
      else if n = 0 ∨ n > 9223372036854775808 then some (.f (F64.ofNat n).neg, rest)
      else some (.i (-(n : Int)), rest) := by
  unfold parseNumberTail
  split
  · exact absurd rfl (hr _ rfl).2.1
  · exact absurd rfl (hr _ rfl).2.2.1
  · exact absurd rfl (hr _ rfl).2.2.2.1
  · rfl

/-- ingredient 2: the decimal text of `n ≤ u64::MAX` is read back as the significand `n` -/
theorem parseInteger_toDigits (positive : Bool) (n : Nat) (hn : n ≤ U64_MAX) (rest : List Char)
    (hr : ∀ c, rest.head? = some c → ¬ JsonText.isDigit c = true) :
    parseInteger positive (Nat.toDigits 10 n ++ rest) = parseNumberTail positive n rest := by
  rcases Nat.eq_zero_or_pos n with rfl | hpos
  · cases rest with
    | nil => simp [parseInteger]
    | cons c cs =>
      have := hr c rfl
      simp [parseInteger, this]
  · obtain ⟨d0, ds, he, h1, h2⟩ := toDigits_head n hpos
    have hval : Nat.ofDigitChars 10 ds (digitVal d0) = n := by
      have := @Nat.ofDigitChars_ten_toDigits n
      rw [he, Nat.ofDigitChars_cons] at this
      simpa [digitVal] using this
    have hds : ∀ c ∈ ds, JsonText.isDigit c = true := fun c hc =>
      isDigit_of_mem_toDigits (n := n) (by rw [he]; simp [hc])
    have hloop := digits_loop ds (digitVal d0) rest hds hr (by rw [hval]; exact hn)
    rw [he, List.cons_append, parseInteger]
    · simp only [(one_le_iff d0).2 ⟨h1, h2⟩, if_true, hloop, hval]
      simp
    · intro h; rw [h] at h1; revert h1; decide

theorem toDigits_head_isDigit (n : Nat) :
    ∃ d0 ds, Nat.toDigits 10 n = d0 :: ds ∧ JsonText.isDigit d0 = true := by
  cases h : Nat.toDigits 10 n with
  | nil => exact absurd h Nat.toDigits_ne_nil
  | cons d ds => exact ⟨d, ds, rfl, isDigit_of_mem_toDigits (n := n) (by rw [h]; simp)⟩

theorem skipWs_cons_of_not_ws {c : Char} (h : isWs c = false) (cs : List Char) : skipWs (c :: cs) = c :: cs := by
  simp [skipWs, h]

theorem isWs_of_isDigit {c : Char} (h : JsonText.isDigit c = true) : isWs c = false := by
  have := (isDigit_iff c).1 h
  simp only [isWs, Bool.or_eq_false_iff, decide_eq_false_iff_not]
  refine ⟨⟨⟨?_, ?_⟩, ?_⟩, ?_⟩ <;> (intro h; rw [h] at this; revert this; decide)

/-- a value starting with a digit is a number -/
theorem parseValue_digit (fuel depth : Nat) (c : Char) (r : List Char) (h : JsonText.isDigit c = true) :
    parseValue (fuel + 1) depth (c :: r) = (parseInteger true (c :: r)).map fun (n, r) => (numVal n, r) := by
  have h2 := (isDigit_iff c).1 h
  rw [parseValue, skipWs_cons_of_not_ws (isWs_of_isDigit h)]
  split
  all_goals first
    | (exfalso; rename_i heq; injection heq with h1 _; rw [h1] at h2; revert h2; decide)
    | skip
  · rename_i heq; injection heq with h1 h3; subst h1 h3; simp [h]
  · rename_i heq; exact absurd heq (by simp)

theorem parseValue_pos (fuel depth n : Nat) (hn : n < 2 ^ 64) (rest : List Char) (hr : NumEnd rest) :
    parseValue (fuel + 1) depth ((toString n).toList ++ rest) = some (.num (.pos n), rest) := by
  rw [Nat.toString_eq_repr, Nat.toList_repr]
  obtain ⟨d0, ds, he, hd⟩ := toDigits_head_isDigit n
  have h1 := parseInteger_toDigits true n (by unfold U64_MAX; omega) rest (fun c hc => (hr c hc).1)
  rw [he] at h1 ⊢
  rw [List.cons_append, parseValue_digit _ _ _ _ hd, ← List.cons_append, h1, parseNumberTail_end _ _ _ hr]
  simp [numVal]

theorem skipWs_minus (cs : List Char) : skipWs ('-' :: cs) = '-' :: cs := by
  simp [skipWs, isWs]

theorem parseValue_neg (fuel depth : Nat) (i : Int) (h1 : -(2 ^ 63 : Int) ≤ i) (h2 : i < 0) (rest : List Char)
    (hr : NumEnd rest) :
    parseValue (fuel + 1) depth ((toString i).toList ++ rest) = some (.num (.neg i), rest) := by
  rw [Int.toString_eq_repr, Int.repr_eq_if, if_neg (by omega), String.toList_append, Nat.toList_repr]
  have h3 := parseInteger_toDigits false (-i).toNat (by unfold U64_MAX; omega) rest (fun c hc => (hr c hc).1)
  have h4 : "-".toList = ['-'] := rfl
  rw [h4, List.append_assoc, List.singleton_append, parseValue, skipWs_minus]
  simp only
  rw [h3, parseNumberTail_end _ _ _ hr]
  simp only [Bool.false_eq_true, if_false]
  rw [if_neg (by omega)]
  simp only [Option.map_some, numVal]
  have : -((-i).toNat : Int) = i := by omega
  rw [this]

end JsonRT
end JmesVerif
