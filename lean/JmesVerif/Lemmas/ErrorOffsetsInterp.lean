import JmesVerif.Lemmas.ErrorOffsets
import JmesVerif.Lemmas.Signature
import JmesVerif.Props.C07
/-!
# Where runtime errors point: the induction over the interpreter's mutual block

For a predicate `P : OKind → Nat → Prop` on (kind, offset) pairs: if every call / slice node of the
tree and of every expression reference held in the data satisfies `P`, then so does every
expression reference in the value returned, and every error is `EOk P rt`.
-/
namespace JmesVerif

section
variable (P : OKind → Nat → Prop)

structure LocStep (rt : Registry) (n : Nat) : Prop where
  interp : ∀ d a off, AOk P a → VOk P d → ROk P rt (VOk P) (interp rt n d a off)
  projectEach : ∀ xs a off, AOk P a → (∀ x ∈ xs, VOk P x) →
    ROk P rt (fun ys => ∀ y ∈ ys, VOk P y) (projectEach rt n xs a off)
  interpAll : ∀ d es off, (∀ e ∈ es, AOk P e) → VOk P d →
    ROk P rt (fun vs => ∀ v ∈ vs, VOk P v) (interpAll rt n d es off)
  interpKVs : ∀ d kvs acc off, (∀ p ∈ kvs, AOk P p.2) → VOk P d → (∀ p ∈ acc, VOk P p.2) →
    ROk P rt (fun m => ∀ p ∈ m, VOk P p.2) (interpKVs rt n d kvs acc off)
  mapExpref : ∀ xs a off, AOk P a → (∀ x ∈ xs, VOk P x) →
    ROk P rt (fun ys => ∀ y ∈ ys, VOk P y) (mapExpref rt n xs a off)
  keysTyped : ∀ xs a ty inv off, AOk P a → (∀ x ∈ xs, VOk P x) → (∃ b, CallAt P rt (.builtin b) off ∧ b.isBy = true) →
    ROk P rt (fun _ => True) (keysTyped rt n xs a ty inv off)
  callFn : ∀ f args off, (∀ v ∈ args, VOk P v) → CallAt P rt f off → ROk P rt (VOk P) (callFn rt n f args off)
  byExtreme : ∀ isMax xs a off, AOk P a → (∀ x ∈ xs, VOk P x) → (∃ b, CallAt P rt (.builtin b) off ∧ b.isBy = true) →
    ROk P rt (VOk P) (byExtreme rt n isMax xs a off)

theorem LocStep.zero (rt : Registry) : LocStep P rt 0 := by
  constructor <;> intros <;> simp [JmesVerif.interp, JmesVerif.projectEach, JmesVerif.interpAll,
    JmesVerif.interpKVs, JmesVerif.mapExpref, JmesVerif.keysTyped, JmesVerif.callFn, JmesVerif.byExtreme]

/-- the slice arm faults only on an array longer than `i32::MAX` (`C07_slice_eq_python`) -/
theorem slice_panic_huge (rt : Registry) (fuel : Nat) (d : Val) (o : Nat) (st sp : Option Int) (step : Int)
    (off : Nat) (m : String) (h : interp rt fuel d (.slice o st sp step) off = .error (.panic m)) :
    step ≠ 0 ∧ m = "slice" ∧ ∃ xs, d = .arr xs ∧ I32_MAX < (xs.length : Int) := by
  cases fuel with
  | zero => simp [interp] at h
  | succ n =>
    rw [interp.eq_def] at h
    simp only at h
    split at h
    · simp at h
    · rename_i hstep
      refine ⟨hstep, ?_⟩
      split at h
      · rename_i xs
        split at h
        · simp at h
        · rename_i f hs
          simp only [Except.error.injEq, EvalErr.panic.injEq] at h
          refine ⟨h.symm, xs, rfl, ?_⟩
          apply Int.lt_of_not_ge
          intro hle
          rw [C07_slice_eq_python xs st sp step hstep hle] at hs
          cases hs
      · simp at h

theorem interp_lstep (rt : Registry) (n : Nat) (ih : LocStep P rt n) :
    ∀ d a off, AOk P a → VOk P d → ROk P rt (VOk P) (interp rt (n+1) d a off) := by
  intro d a off ha hd
  rw [interp.eq_def]
  cases a with
  | field o name => simp only [ROk_ok]; exact getField_VOk P _ _ hd
  | identity o => simpa using hd
  | literal o w => simpa using ha
  | expref o a => simpa using ha
  | index o i =>
    simp only
    split
    · simp only [ROk_ok]; exact index_VOk P _ _ (by simpa using hd)
    · simp
  | slice o st sp step =>
    simp only [AOk_slice] at ha
    simp only
    split
    · simpa [EOk] using ha
    · rename_i hstep
      split
      · rename_i xs
        split
        · rename_i ys hs
          simp only [ROk_ok, VOk_arr] at hd ⊢
          intro y hy
          exact hd y (sliceList_mem _ _ _ _ _ hs y hy)
        · simp only [ROk_error, EOk, true_and]
          exact ⟨o, ha⟩
      · simp
  | subexpr o l r =>
    simp only [AOk_subexpr] at ha
    have h1 := ih.interp d l off ha.1 hd
    simp only
    split
    · rename_i e he; rw [he] at h1; exact h1
    · rename_i v off' he; rw [he] at h1; exact ih.interp v r off' ha.2 h1
  | or o l r =>
    simp only [AOk_or] at ha
    have h1 := ih.interp d l off ha.1 hd
    simp only
    split
    · rename_i e he; rw [he] at h1; exact h1
    · rename_i v off' he; rw [he] at h1
      split
      · exact h1
      · exact ih.interp d r off' ha.2 hd
  | and o l r =>
    simp only [AOk_and] at ha
    have h1 := ih.interp d l off ha.1 hd
    simp only
    split
    · rename_i e he; rw [he] at h1; exact h1
    · rename_i v off' he; rw [he] at h1
      split
      · exact h1
      · exact ih.interp d r off' ha.2 hd
  | not o a =>
    simp only [AOk_not] at ha
    have h1 := ih.interp d a off ha hd
    simp only
    split
    · rename_i e he; rw [he] at h1; exact h1
    · simp
  | condition o p t =>
    simp only [AOk_condition] at ha
    have h1 := ih.interp d p off ha.1 hd
    simp only
    split
    · rename_i e he; rw [he] at h1; exact h1
    · rename_i v off' he
      split
      · exact ih.interp d t off' ha.2 hd
      · simp
  | comparison o c l r =>
    simp only [AOk_comparison] at ha
    have h1 := ih.interp d l off ha.1 hd
    simp only
    split
    · rename_i e he; rw [he] at h1; exact h1
    · rename_i v off' he
      have h2 := ih.interp d r off' ha.2 hd
      split
      · rename_i e he2; rw [he2] at h2; exact h2
      · split <;> simp
  | objectValues o a =>
    simp only [AOk_objectValues] at ha
    have h1 := ih.interp d a off ha hd
    simp only
    split
    · rename_i e he; rw [he] at h1; exact h1
    · rename_i kvs off' he; rw [he] at h1
      simp only [ROk_ok, VOk_obj, VOk_arr] at h1 ⊢
      intro y hy
      rw [List.mem_map] at hy
      obtain ⟨p, hp, rfl⟩ := hy
      exact h1 p hp
    · simp
  | projection o l r =>
    simp only [AOk_projection] at ha
    have h1 := ih.interp d l off ha.1 hd
    simp only
    split
    · rename_i e he; rw [he] at h1; exact h1
    · rename_i xs off' he; rw [he] at h1
      simp only [ROk_ok, VOk_arr] at h1
      have h2 := ih.projectEach xs r off' ha.2 h1
      split
      · rename_i e he2; rw [he2] at h2; exact h2
      · rename_i ys off'' he2; rw [he2] at h2
        simpa using h2
    · simp
  | flatten o a =>
    simp only [AOk_flatten] at ha
    have h1 := ih.interp d a off ha hd
    simp only
    split
    · rename_i e he; rw [he] at h1; exact h1
    · rename_i xs off' he; rw [he] at h1
      simp only [ROk_ok, VOk_arr] at h1 ⊢
      exact flatten_VOk P xs h1
    · simp
  | multiList o es =>
    simp only [AOk_multiList] at ha
    have h1 := ih.interpAll d es off ha hd
    simp only
    split
    · simp
    · split
      · rename_i e he; rw [he] at h1; exact h1
      · rename_i vs off' he; rw [he] at h1; simpa using h1
  | multiHash o kvs =>
    simp only [AOk_multiHash] at ha
    have h1 := ih.interpKVs d kvs [] off ha hd (by simp)
    simp only
    split
    · simp
    · split
      · rename_i e he; rw [he] at h1; exact h1
      · rename_i vs off' he; rw [he] at h1; simpa using h1
  | function o name args =>
    simp only [AOk_function] at ha
    have h1 := ih.interpAll d args off ha.2 hd
    simp only
    split
    · rename_i e he; rw [he] at h1; exact h1
    · rename_i vs prev he; rw [he] at h1
      simp only [ROk_ok] at h1
      split
      · rename_i f hf
        have h2 := ih.callFn f vs o h1 ⟨name, ha.1, hf⟩
        split
        · rename_i e he2; rw [he2] at h2; exact h2
        · rename_i v off'' he2; rw [he2] at h2; exact h2
      · rename_i hf
        simp only [ROk_error, EOk]
        exact ⟨ha.1, hf⟩

theorem projectEach_lstep (rt : Registry) (n : Nat) (ih : LocStep P rt n) :
    ∀ xs a off, AOk P a → (∀ x ∈ xs, VOk P x) →
    ROk P rt (fun ys => ∀ y ∈ ys, VOk P y) (projectEach rt (n+1) xs a off) := by
  intro xs a off ha hx
  rw [projectEach.eq_def]
  simp only
  split
  · simp
  · rename_i x rest
    have h1 := ih.interp x a off ha (hx x (by simp))
    split
    · rename_i e he; rw [he] at h1; exact h1
    · rename_i v off' he; rw [he] at h1
      have h2 := ih.projectEach rest a off' ha (fun y hy => hx y (by simp [hy]))
      split
      · rename_i e he2; rw [he2] at h2; exact h2
      · rename_i vs off'' he2; rw [he2] at h2
        simp only [ROk_ok] at h1 h2 ⊢
        split
        · exact h2
        · intro y hy
          rcases List.mem_cons.1 hy with rfl | hy
          · exact h1
          · exact h2 y hy

theorem mapExpref_lstep (rt : Registry) (n : Nat) (ih : LocStep P rt n) :
    ∀ xs a off, AOk P a → (∀ x ∈ xs, VOk P x) →
    ROk P rt (fun ys => ∀ y ∈ ys, VOk P y) (mapExpref rt (n+1) xs a off) := by
  intro xs a off ha hx
  rw [mapExpref.eq_def]
  simp only
  split
  · simp
  · rename_i x rest
    have h1 := ih.interp x a off ha (hx x (by simp))
    split
    · rename_i e he; rw [he] at h1; exact h1
    · rename_i v off' he; rw [he] at h1
      have h2 := ih.mapExpref rest a off' ha (fun y hy => hx y (by simp [hy]))
      split
      · rename_i e he2; rw [he2] at h2; exact h2
      · rename_i vs off'' he2; rw [he2] at h2
        simp only [ROk_ok] at h1 h2 ⊢
        intro y hy
        rcases List.mem_cons.1 hy with rfl | hy
        · exact h1
        · exact h2 y hy

theorem interpAll_lstep (rt : Registry) (n : Nat) (ih : LocStep P rt n) :
    ∀ d es off, (∀ e ∈ es, AOk P e) → VOk P d →
    ROk P rt (fun vs => ∀ v ∈ vs, VOk P v) (interpAll rt (n+1) d es off) := by
  intro d es off ha hd
  rw [interpAll.eq_def]
  simp only
  split
  · simp
  · rename_i x rest
    have h1 := ih.interp d x off (ha x (by simp)) hd
    split
    · rename_i e he; rw [he] at h1; exact h1
    · rename_i v off' he; rw [he] at h1
      have h2 := ih.interpAll d rest off' (fun y hy => ha y (by simp [hy])) hd
      split
      · rename_i e he2; rw [he2] at h2; exact h2
      · rename_i vs off'' he2; rw [he2] at h2
        simp only [ROk_ok] at h1 h2 ⊢
        intro y hy
        rcases List.mem_cons.1 hy with rfl | hy
        · exact h1
        · exact h2 y hy

theorem interpKVs_lstep (rt : Registry) (n : Nat) (ih : LocStep P rt n) :
    ∀ d kvs acc off, (∀ p ∈ kvs, AOk P p.2) → VOk P d → (∀ p ∈ acc, VOk P p.2) →
    ROk P rt (fun m => ∀ p ∈ m, VOk P p.2) (interpKVs rt (n+1) d kvs acc off) := by
  intro d kvs acc off ha hd hacc
  rw [interpKVs.eq_def]
  simp only
  split
  · simpa using hacc
  · rename_i k x rest
    have h1 := ih.interp d x off (ha (k, x) (by simp)) hd
    split
    · rename_i e he; rw [he] at h1; exact h1
    · rename_i v off' he; rw [he] at h1
      exact ih.interpKVs d rest _ off' (fun y hy => ha y (by simp [hy])) hd
        (insertKV_VOk P k v acc h1 hacc)

theorem keysTyped_lstep (rt : Registry) (n : Nat) (ih : LocStep P rt n) :
    ∀ xs a ty inv off, AOk P a → (∀ x ∈ xs, VOk P x) → (∃ b, CallAt P rt (.builtin b) off ∧ b.isBy = true) →
    ROk P rt (fun _ => True) (keysTyped rt (n+1) xs a ty inv off) := by
  intro xs a ty inv off ha hx hoff
  rw [keysTyped.eq_def]
  simp only
  split
  · simp
  · rename_i x rest
    have h1 := ih.interp x a off ha (hx x (by simp))
    split
    · rename_i e he; rw [he] at h1; exact h1
    · rename_i v off' he
      have hoo : off' = off := (Comp.offKeep_all rt n).interp _ _ _ _ _ he
      subst hoo
      split
      · simp only [ROk_error, EOk]; exact hoff
      · have h2 := ih.keysTyped rest a ty (inv + 1) off' ha (fun y hy => hx y (by simp [hy])) hoff
        split
        · rename_i e he2; rw [he2] at h2; exact h2
        · simp

theorem byExtreme_lstep (rt : Registry) (n : Nat) (ih : LocStep P rt n) :
    ∀ isMax xs a off, AOk P a → (∀ x ∈ xs, VOk P x) → (∃ b, CallAt P rt (.builtin b) off ∧ b.isBy = true) →
    ROk P rt (VOk P) (byExtreme rt (n+1) isMax xs a off) := by
  intro isMax xs a off ha hx hoff
  rw [byExtreme.eq_def]
  simp only
  split
  · simp
  · rename_i x rest
    have h1 := ih.interp x a off ha (hx x (by simp))
    split
    · rename_i e he; rw [he] at h1; exact h1
    · rename_i k0 off' he
      have hoo : off' = off := (Comp.offKeep_all rt n).interp _ _ _ _ _ he
      subst hoo
      split
      · simp only [ROk_error, EOk]; exact hoff
      · have h2 := ih.keysTyped rest a k0.type 1 off' ha (fun y hy => hx y (by simp [hy])) hoff
        split
        · rename_i e he2; rw [he2] at h2; exact h2
        · simp only [ROk_ok]
          apply hx
          apply pick_mem
          intro a b
          (repeat' split) <;> simp

theorem sortBy_lstep (rt : Registry) (n : Nat) (ih : LocStep P rt n) (a : Ast) (xs : List Val) (off : Nat)
    (ha : AOk P a) (hx : ∀ x ∈ xs, VOk P x) (hoff : ∃ b, CallAt P rt (.builtin b) off ∧ b.isBy = true) :
    ROk P rt (VOk P) (callFn rt (n+1) (.builtin .sortBy) [.arr xs, .expref a] off) := by
  have hv : Builtin.sortBy.sig.validate [.arr xs, .expref a] off = .ok () := by
    exact (validate_two _ _ _ _).2 ⟨_, _, rfl, by simp [ArgT.isValid, Val.type], by simp [ArgT.isValid, Val.type]⟩
  cases xs with
  | nil => simp [callFn, hv]
  | cons x rest =>
    simp only [callFn, hv]
    have h1 := ih.interp x a off ha (hx x (by simp))
    split
    · rename_i e he; rw [he] at h1; exact h1
    · rename_i k0 off' he
      have hoo : off' = off := (Comp.offKeep_all rt n).interp _ _ _ _ _ he
      subst hoo
      split
      · simp only [ROk_error, EOk]; exact hoff
      · have h2 := ih.keysTyped rest a k0.type 1 off' ha (fun y hy => hx y (by simp [hy])) hoff
        split
        · rename_i e he2; rw [he2] at h2; exact h2
        · simp only [ROk_ok, VOk_arr]
          intro y hy
          exact hx y (sortBy_mem _ _ y hy)

theorem validateArgs_err_kind (s : Sig) (off o : Nat) (r : RtErr) (vs : List Val) : ∀ k,
    s.validateArgs off k vs = .error (.runtime r o) → ∃ a b c, r = .invalidType a b c := by
  induction vs with
  | nil => intro k h; simp [Sig.validateArgs] at h
  | cons v vs ih =>
    intro k h
    rw [Sig.validateArgs] at h
    try simp only at h
    split at h
    · simp at h
    · split at h
      · exact ih _ h
      · simp only [Except.error.injEq, EvalErr.runtime.injEq] at h
        exact ⟨_, _, _, h.1.symm⟩

/-- the validator only raises arity and type errors -/
theorem validate_err_kind (s : Sig) (args : List Val) (off o : Nat) (r : RtErr)
    (h : s.validate args off = .error (.runtime r o)) :
    (∃ a b, r = .tooMany a b) ∨ (∃ a b, r = .notEnough a b) ∨ (∃ a b c, r = .invalidType a b c) := by
  unfold Sig.validate at h
  split at h
  · rename_i e' he
    simp only [Except.error.injEq] at h; subst h
    unfold Sig.validateArity at he
    simp only at he
    split at he
    · split at he
      · simp at he
      · simp only [Except.error.injEq, EvalErr.runtime.injEq] at he; exact .inr (.inl ⟨_, _, he.1.symm⟩)
    · split at he
      · simp at he
      · split at he
        · simp only [Except.error.injEq, EvalErr.runtime.injEq] at he; exact .inr (.inl ⟨_, _, he.1.symm⟩)
        · simp only [Except.error.injEq, EvalErr.runtime.injEq] at he; exact .inl ⟨_, _, he.1.symm⟩
  · exact .inr (.inr (validateArgs_err_kind s off o r args 0 h))

theorem validate_EOk (s : Sig) (args : List Val) (f : Fn) (off : Nat) (e : EvalErr) (hoff : CallAt P rt f off)
    (h : s.validate args off = .error e) : EOk P rt e := by
  obtain ⟨r, rfl⟩ := validate_error_offset s args off e h
  rcases validate_err_kind s args off off r h with ⟨a, b, rfl⟩ | ⟨a, b, rfl⟩ | ⟨a, b, c, rfl⟩ <;>
    exact ⟨f, hoff⟩

theorem callFn_lstep (rt : Registry) (n : Nat) (ih : LocStep P rt n) :
    ∀ f args off, (∀ v ∈ args, VOk P v) → CallAt P rt f off → ROk P rt (VOk P) (callFn rt (n+1) f args off) := by
  intro f args off hargs hoff
  have hcust : ∀ id, VOk P (customResult id args) := by
    intro id
    simp only [customResult, VOk_obj]
    intro p hp
    simp only [List.mem_cons, List.not_mem_nil, or_false] at hp
    rcases hp with rfl | rfl
    · simpa using hargs
    · simp
  cases f with
  | custom id sig =>
    rw [callFn.eq_def]
    simp only
    split
    · rename_i s
      split
      · rename_i e he; exact validate_EOk P s args _ off e hoff he
      · exact hcust id
    · exact hcust id
  | builtin b =>
    cases hv : b.sig.validate args off with
    | error e =>
      have : callFn rt (n + 1) (.builtin b) args off = .error e := by
        rw [callFn.eq_def]; simp only [hv]
      rw [this]
      exact validate_EOk P _ args _ off e hoff hv
    | ok u =>
      cases u
      cases hb : b.usesExpref with
      | false =>
        rw [callFn_pure rt n b args off hb, hv]
        simp only
        cases hp : b.pure args with
        | error e =>
          simp only [ROk_error]
          rcases pure_error_msg b args e hp with ⟨msg, hm, rfl⟩ | ⟨m, rfl⟩
          · exact hm
          · exact absurd hp (pure_no_panic b args off hv hb m)
        | ok v => exact pure_VOk P b args v hargs hp
      | true =>
        rcases expref_args_shape b args off hv hb with ⟨rfl, a, xs, rfl⟩ | ⟨hb', a, xs, rfl⟩
        · rw [callFn_map]
          have ha : AOk P a := by simpa using hargs (.expref a) (by simp)
          have hx : ∀ x ∈ xs, VOk P x := by simpa using hargs (.arr xs) (by simp)
          have h1 := ih.mapExpref xs a off ha hx
          split
          · rename_i e he; rw [he] at h1; exact h1
          · rename_i vs off' he; rw [he] at h1; simpa using h1
        · have ha : AOk P a := by simpa using hargs (.expref a) (by simp)
          have hx : ∀ x ∈ xs, VOk P x := by simpa using hargs (.arr xs) (by simp)
          rcases hb' with rfl | rfl | rfl
          · exact sortBy_lstep P rt n ih a xs off ha hx ⟨_, hoff, rfl⟩
          · rw [callFn_maxBy]; exact ih.byExtreme true xs a off ha hx ⟨_, hoff, rfl⟩
          · rw [callFn_minBy]; exact ih.byExtreme false xs a off ha hx ⟨_, hoff, rfl⟩

theorem locStep_all (rt : Registry) : ∀ n, LocStep P rt n
  | 0 => LocStep.zero P rt
  | n + 1 =>
    have ih := locStep_all rt n
    ⟨interp_lstep P rt n ih, projectEach_lstep P rt n ih, interpAll_lstep P rt n ih,
     interpKVs_lstep P rt n ih, mapExpref_lstep P rt n ih, keysTyped_lstep P rt n ih,
     callFn_lstep P rt n ih, byExtreme_lstep P rt n ih⟩
end

end JmesVerif
