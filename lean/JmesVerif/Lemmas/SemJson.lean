import JmesVerif.Spec.Sem
/-
The semantics of core expressions maps JSON values to JSON values (no expression reference can
appear), plus the list facts this needs.
-/
namespace JmesVerif
open Spec

theorem valsJson_iff {xs : List Val} : valsJson xs = true ↔ ∀ x ∈ xs, x.isJson = true := by
  induction xs with
  | nil => simp [valsJson]
  | cons x r ih => simp [valsJson, ih]

theorem kvsJson_iff {kvs : List (String × Val)} :
    kvsJson kvs = true ↔ ∀ p ∈ kvs, p.2.isJson = true := by
  induction kvs with
  | nil => simp [kvsJson]
  | cons p r ih => obtain ⟨k, v⟩ := p; simp [kvsJson, ih]

theorem arr_json {xs : List Val} : (Val.arr xs).isJson = true ↔ ∀ x ∈ xs, x.isJson = true := by
  simp [Val.isJson, valsJson_iff]

theorem obj_json {kvs : List (String × Val)} :
    (Val.obj kvs).isJson = true ↔ ∀ p ∈ kvs, p.2.isJson = true := by
  simp [Val.isJson, kvsJson_iff]

theorem lookup_mem {k : String} {kvs : List (String × Val)} {v : Val}
    (h : Val.lookup k kvs = some v) : (k, v) ∈ kvs := by
  induction kvs with
  | nil => simp [Val.lookup] at h
  | cons p r ih =>
    obtain ⟨k', v'⟩ := p
    simp only [Val.lookup] at h
    split at h
    · simp_all
    · simp [ih h]

theorem mem_values {kvs : List (String × Val)} {x : Val} (h : x ∈ Sem.values kvs) :
    ∃ p ∈ kvs, p.2 = x := by
  simpa [Sem.values] using h

theorem mem_pyIndex {α : Type} {xs : List α} {n : Int} {x : α} (h : pyIndex xs n = some x) : x ∈ xs := by
  unfold pyIndex at h
  generalize (if n < 0 then (xs.length : Int) + n else n) = k at h
  simp only [] at h
  split at h
  · simp at h
  · exact List.mem_of_getElem? h

theorem mem_pySlice {α : Type} {xs : List α} {a b : Option Int} {c : Int} {x : α}
    (h : x ∈ pySlice xs a b c) : x ∈ xs := by
  unfold pySlice at h
  simp only [List.mem_filterMap] at h
  obtain ⟨k, _, hk⟩ := h
  split at hk
  · simp at hk
  · exact List.mem_of_getElem? hk

theorem mem_flatten1 {xs : List Val} {x : Val} (h : x ∈ Sem.flatten1 xs) :
    x ∈ xs ∨ ∃ ys, Val.arr ys ∈ xs ∧ x ∈ ys := by
  induction xs with
  | nil => simp [Sem.flatten1] at h
  | cons y r ih =>
    cases y with
    | arr ys =>
      simp only [Sem.flatten1, List.mem_append] at h
      rcases h with h | h
      · exact Or.inr ⟨ys, by simp, h⟩
      · rcases ih h with h | ⟨zs, h1, h2⟩
        · exact Or.inl (by simp [h])
        · exact Or.inr ⟨zs, by simp [h1], h2⟩
    | _ =>
      simp only [Sem.flatten1, List.mem_cons] at h
      rcases h with h | h
      · exact Or.inl (by simp [h])
      · rcases ih h with h | ⟨zs, h1, h2⟩
        · exact Or.inl (by simp [h])
        · exact Or.inr ⟨zs, by simp [h1], h2⟩

theorem mem_dropNulls {ys : List Val} {y : Val} (h : y ∈ Sem.dropNulls ys) : y ∈ ys := by
  simp only [Sem.dropNulls, List.mem_filter] at h
  exact h.1

theorem optMapM_mem {f : Val → Option Val} :
    ∀ {xs ys : List Val}, Sem.optMapM f xs = some ys → ∀ y ∈ ys, ∃ x ∈ xs, f x = some y
  | [], ys, h, y, hy => by simp [Sem.optMapM] at h; subst h; simp at hy
  | x :: r, ys, h, y, hy => by
    simp only [Sem.optMapM] at h
    cases hfx : f x with
    | none => simp [hfx] at h
    | some v =>
      simp only [hfx] at h
      cases hm : Sem.optMapM f r with
      | none => simp [hm] at h
      | some zs =>
        simp only [hm, Option.map_some, Option.some.injEq] at h
        subst h
        rcases List.mem_cons.mp hy with rfl | hy
        · exact ⟨x, by simp, hfx⟩
        · obtain ⟨x', hx', hf'⟩ := optMapM_mem hm y hy
          exact ⟨x', by simp [hx'], hf'⟩

theorem mem_insertKV {β : Type} {k : String} {v : β} {acc : List (String × β)} {p : String × β}
    (h : p ∈ insertKV k v acc) : p = (k, v) ∨ p ∈ acc := by
  induction acc with
  | nil => simp [insertKV] at h; exact Or.inl h
  | cons q r ih =>
    obtain ⟨k', v'⟩ := q
    simp only [insertKV] at h
    split at h
    · simpa using h
    · split at h
      · rcases List.mem_cons.mp h with h | h
        · exact Or.inl h
        · exact Or.inr (by simp [h])
      · rcases List.mem_cons.mp h with h | h
        · exact Or.inr (by simp [h])
        · rcases ih h with h | h
          · exact Or.inl h
          · exact Or.inr (by simp [h])

theorem field_json {d : Val} (k : String) (hd : d.isJson = true) : (Sem.field d k).isJson = true := by
  cases d with
  | obj kvs =>
    simp only [Sem.field]
    cases h : Val.lookup k kvs with
    | none => rfl
    | some v => exact obj_json.mp hd _ (lookup_mem h)
  | _ => rfl

theorem index_json {d : Val} (n : Int) (hd : d.isJson = true) : (Sem.index d n).isJson = true := by
  cases d with
  | arr xs =>
    simp only [Sem.index]
    cases h : pyIndex xs n with
    | none => rfl
    | some v => exact arr_json.mp hd _ (mem_pyIndex h)
  | _ => rfl

theorem cmpVal_json (o : Cmp) (l r : Val) : (Sem.cmpVal o l r).isJson = true := by
  unfold Sem.cmpVal; cases Val.compare o l r <;> rfl

/-- the result of a projection is JSON when every mapped element is -/
theorem proj_json {f : Val → Option Val} {xs : List Val} {v : Val}
    (hf : ∀ x ∈ xs, ∀ y, f x = some y → y.isJson = true)
    (h : ((Sem.optMapM f xs).map fun ys => Val.arr (Sem.dropNulls ys)) = some v) :
    v.isJson = true := by
  cases hm : Sem.optMapM f xs with
  | none => simp [hm] at h
  | some ys =>
    simp only [hm, Option.map_some, Option.some.injEq] at h
    subst h
    refine arr_json.mpr fun y hy => ?_
    obtain ⟨x, hx, hfx⟩ := optMapM_mem hm y (mem_dropNulls hy)
    exact hf x hx y hfx

theorem values_json {kvs : List (String × Val)} (h : (Val.obj kvs).isJson = true) :
    ∀ x ∈ Sem.values kvs, x.isJson = true := by
  intro x hx
  obtain ⟨p, hp, rfl⟩ := mem_values hx
  exact obj_json.mp h p hp

theorem flatten1_json {xs : List Val} (h : (Val.arr xs).isJson = true) :
    ∀ x ∈ Sem.flatten1 xs, x.isJson = true := by
  intro x hx
  rcases mem_flatten1 hx with hx | ⟨ys, h1, h2⟩
  · exact arr_json.mp h x hx
  · exact arr_json.mp (arr_json.mp h _ h1) x h2

theorem pySlice_json {xs : List Val} {a b : Option Int} {c : Int} (h : (Val.arr xs).isJson = true) :
    ∀ x ∈ pySlice xs a b c, x.isJson = true :=
  fun x hx => arr_json.mp h x (mem_pySlice hx)

theorem insertKV_json {k : String} {v : Val} {acc : List (String × Val)}
    (hv : v.isJson = true) (hacc : ∀ p ∈ acc, p.2.isJson = true) :
    ∀ p ∈ insertKV k v acc, p.2.isJson = true := by
  intro p hp
  rcases mem_insertKV hp with rfl | hp
  · exact hv
  · exact hacc p hp

mutual
theorem nud_json : ∀ h : Nud, Sem.nudCore h = true → ∀ d : Val, d.isJson = true →
    ∀ v, Sem.nud d h = some v → v.isJson = true
  | .at, _, d, hd, v, hv => by simp [Sem.nud] at hv; subst hv; exact hd
  | .field s, _, d, hd, v, hv => by simp [Sem.nud] at hv; subst hv; exact field_json s hd
  | .qfield s, _, d, hd, v, hv => by simp [Sem.nud] at hv; subst hv; exact field_json s hd
  | .call _ _, hc, _, _, _, _ => by simp [Sem.nudCore] at hc
  | .lit w, hc, d, hd, v, hv => by simp [Sem.nud] at hv; subst hv; simpa [Sem.nudCore] using hc
  | .idx n, _, d, hd, v, hv => by simp [Sem.nud] at hv; subst hv; exact index_json n hd
  | .paren e, hc, d, hd, v, hv => by
    simp only [Sem.nud] at hv; simp only [Sem.nudCore] at hc
    exact expr_json e hc d hd v hv
  | .not e, hc, d, hd, v, hv => by
    simp only [Sem.nud] at hv
    cases h : Sem.expr d e <;> simp [h] at hv
    subst hv; rfl
  | .mlist es, hc, d, hd, v, hv => by
    simp only [Sem.nud] at hv; simp only [Sem.nudCore] at hc
    split at hv
    · simp at hv; subst hv; rfl
    · cases h : Sem.exprs d es <;> simp [h] at hv
      subst hv
      exact arr_json.mpr (exprs_json es hc d hd _ h)
  | .mhash kvs, hc, d, hd, v, hv => by
    simp only [Sem.nud] at hv; simp only [Sem.nudCore] at hc
    split at hv
    · simp at hv; subst hv; rfl
    · cases h : Sem.kvs' d kvs [] <;> simp [h] at hv
      subst hv
      exact obj_json.mpr (kvs_json kvs hc d hd [] (by simp) _ h)
  | .wildIdx r, hc, d, hd, v, hv => by
    simp only [Sem.nud] at hv; simp only [Sem.nudCore] at hc
    cases d with
    | arr xs => exact proj_json (fun x hx y hy => rhs_json r hc x (arr_json.mp hd x hx) y hy) hv
    | _ => simp at hv; subst hv; rfl
  | .star r, hc, d, hd, v, hv => by
    simp only [Sem.nud] at hv; simp only [Sem.nudCore] at hc
    cases d with
    | obj kvs => exact proj_json (fun x hx y hy => rhs_json r hc x (values_json hd x hx) y hy) hv
    | _ => simp at hv; subst hv; rfl
  | .flatten r, hc, d, hd, v, hv => by
    simp only [Sem.nud] at hv; simp only [Sem.nudCore] at hc
    cases d with
    | arr xs => exact proj_json (fun x hx y hy => rhs_json r hc x (flatten1_json hd x hx) y hy) hv
    | _ => simp at hv; subst hv; rfl
  | .slice h r, hc, d, hd, v, hv => by
    simp only [Sem.nud] at hv; simp only [Sem.nudCore] at hc
    split at hv
    · simp at hv
    · cases d with
      | arr xs => exact proj_json (fun x hx y hy => rhs_json r hc x (pySlice_json hd x hx) y hy) hv
      | _ => simp at hv; subst hv; rfl
  | .filter p r, hc, d, hd, v, hv => by
    simp only [Sem.nud] at hv; simp only [Sem.nudCore, Bool.and_eq_true] at hc
    cases d with
    | arr xs =>
      refine proj_json (fun x hx y hy => ?_) hv
      have hx' := arr_json.mp hd x hx
      cases hp : Sem.expr x p with
      | none => simp [hp] at hy
      | some c =>
        simp only [hp] at hy
        split at hy
        · exact rhs_json r hc.2 x hx' y hy
        · simp at hy; subst hy; rfl
    | _ => simp at hv; subst hv; rfl
  | .expref _, hc, _, _, _, _ => by simp [Sem.nudCore] at hc
theorem led_json : ∀ l : Led, Sem.ledCore l = true → ∀ d lv : Val, d.isJson = true → lv.isJson = true →
    ∀ v, Sem.led d lv l = some v → v.isJson = true
  | .dot dr, hc, d, lv, hd, hl, v, hv => by
    simp only [Sem.led] at hv; simp only [Sem.ledCore] at hc
    exact dot_json dr hc lv hl v hv
  | .index n, _, d, lv, hd, hl, v, hv => by simp [Sem.led] at hv; subst hv; exact index_json n hl
  | .pipe e, hc, d, lv, hd, hl, v, hv => by
    simp only [Sem.led] at hv; simp only [Sem.ledCore] at hc
    exact expr_json e hc lv hl v hv
  | .or e, hc, d, lv, hd, hl, v, hv => by
    simp only [Sem.led] at hv; simp only [Sem.ledCore] at hc
    split at hv
    · simp at hv; subst hv; exact hl
    · exact expr_json e hc d hd v hv
  | .and e, hc, d, lv, hd, hl, v, hv => by
    simp only [Sem.led] at hv; simp only [Sem.ledCore] at hc
    split at hv
    · simp at hv; subst hv; exact hl
    · exact expr_json e hc d hd v hv
  | .cmp o e, hc, d, lv, hd, hl, v, hv => by
    simp only [Sem.led] at hv
    cases h : Sem.expr d e <;> simp [h] at hv
    subst hv; exact cmpVal_json _ _ _
  | .wildIdxL r, hc, d, lv, hd, hl, v, hv => by
    simp only [Sem.led] at hv; simp only [Sem.ledCore] at hc
    cases lv with
    | arr xs => exact proj_json (fun x hx y hy => rhs_json r hc x (arr_json.mp hl x hx) y hy) hv
    | _ => simp at hv; subst hv; rfl
  | .dotStar r, hc, d, lv, hd, hl, v, hv => by
    simp only [Sem.led] at hv; simp only [Sem.ledCore] at hc
    cases lv with
    | obj kvs => exact proj_json (fun x hx y hy => rhs_json r hc x (values_json hl x hx) y hy) hv
    | _ => simp at hv; subst hv; rfl
  | .flattenL r, hc, d, lv, hd, hl, v, hv => by
    simp only [Sem.led] at hv; simp only [Sem.ledCore] at hc
    cases lv with
    | arr xs => exact proj_json (fun x hx y hy => rhs_json r hc x (flatten1_json hl x hx) y hy) hv
    | _ => simp at hv; subst hv; rfl
  | .sliceL h r, hc, d, lv, hd, hl, v, hv => by
    simp only [Sem.led] at hv; simp only [Sem.ledCore] at hc
    split at hv
    · simp at hv
    · cases lv with
      | arr xs => exact proj_json (fun x hx y hy => rhs_json r hc x (pySlice_json hl x hx) y hy) hv
      | _ => simp at hv; subst hv; rfl
  | .filterL p r, hc, d, lv, hd, hl, v, hv => by
    simp only [Sem.led] at hv; simp only [Sem.ledCore, Bool.and_eq_true] at hc
    cases lv with
    | arr xs =>
      refine proj_json (fun x hx y hy => ?_) hv
      have hx' := arr_json.mp hl x hx
      cases hp : Sem.expr x p with
      | none => simp [hp] at hy
      | some c =>
        simp only [hp] at hy
        split at hy
        · exact rhs_json r hc.2 x hx' y hy
        · simp at hy; subst hy; rfl
    | _ => simp at hv; subst hv; rfl
  | .callDev _, hc, _, _, _, _, _, _ => by simp [Sem.ledCore] at hc
theorem rhs_json : ∀ r : Rhs, Sem.rhsCore r = true → ∀ el : Val, el.isJson = true →
    ∀ v, Sem.rhs el r = some v → v.isJson = true
  | .none, _, el, hel, v, hv => by simp [Sem.rhs] at hv; subst hv; exact hel
  | .dot dr, hc, el, hel, v, hv => by
    simp only [Sem.rhs] at hv; simp only [Sem.rhsCore] at hc
    exact dot_json dr hc el hel v hv
  | .bracket e, hc, el, hel, v, hv => by
    simp only [Sem.rhs] at hv; simp only [Sem.rhsCore] at hc
    exact expr_json e hc el hel v hv
theorem dot_json : ∀ dr : DotRhs, Sem.dotCore dr = true → ∀ el : Val, el.isJson = true →
    ∀ v, Sem.dot el dr = some v → v.isJson = true
  | .mlist es, hc, el, hel, v, hv => by
    simp only [Sem.dot] at hv; simp only [Sem.dotCore] at hc
    split at hv
    · simp at hv; subst hv; rfl
    · cases h : Sem.exprs el es <;> simp [h] at hv
      subst hv
      exact arr_json.mpr (exprs_json es hc el hel _ h)
  | .expr e, hc, el, hel, v, hv => by
    simp only [Sem.dot] at hv; simp only [Sem.dotCore] at hc
    exact expr_json e hc el hel v hv
theorem expr_json : ∀ e : Expr, Sem.exprCore e = true → ∀ d : Val, d.isJson = true →
    ∀ v, Sem.expr d e = some v → v.isJson = true
  | .mk h ls, hc, d, hd, v, hv => by
    simp only [Sem.expr] at hv; simp only [Sem.exprCore, Bool.and_eq_true] at hc
    cases hn : Sem.nud d h with
    | none => simp [hn] at hv
    | some w =>
      simp only [hn] at hv
      exact leds_json ls hc.2 d w hd (nud_json h hc.1 d hd w hn) v hv
theorem leds_json : ∀ ls : List Led, Sem.ledsCore ls = true → ∀ d lv : Val, d.isJson = true →
    lv.isJson = true → ∀ v, Sem.leds d lv ls = some v → v.isJson = true
  | [], _, d, lv, hd, hl, v, hv => by simp [Sem.leds] at hv; subst hv; exact hl
  | l :: ls, hc, d, lv, hd, hl, v, hv => by
    simp only [Sem.leds] at hv; simp only [Sem.ledsCore, Bool.and_eq_true] at hc
    cases hn : Sem.led d lv l with
    | none => simp [hn] at hv
    | some w =>
      simp only [hn] at hv
      exact leds_json ls hc.2 d w hd (led_json l hc.1 d lv hd hl w hn) v hv
theorem exprs_json : ∀ es : List Expr, Sem.exprsCore es = true → ∀ d : Val, d.isJson = true →
    ∀ vs, Sem.exprs d es = some vs → ∀ v ∈ vs, v.isJson = true
  | [], _, d, hd, vs, hv => by simp [Sem.exprs] at hv; subst hv; simp
  | e :: es, hc, d, hd, vs, hv => by
    simp only [Sem.exprs] at hv; simp only [Sem.exprsCore, Bool.and_eq_true] at hc
    cases he : Sem.expr d e with
    | none => simp [he] at hv
    | some w =>
      simp only [he] at hv
      cases hes : Sem.exprs d es with
      | none => simp [hes] at hv
      | some ws =>
        simp only [hes, Option.map_some, Option.some.injEq] at hv
        subst hv
        intro v hv
        rcases List.mem_cons.mp hv with rfl | hv
        · exact expr_json e hc.1 d hd _ he
        · exact exprs_json es hc.2 d hd ws hes v hv
theorem kvs_json : ∀ kvs : List (Bool × String × Expr), Sem.kvsCore kvs = true → ∀ d : Val,
    d.isJson = true → ∀ acc : List (String × Val), (∀ p ∈ acc, p.2.isJson = true) →
    ∀ m, Sem.kvs' d kvs acc = some m → ∀ p ∈ m, p.2.isJson = true
  | [], _, d, hd, acc, hacc, m, hm => by simp [Sem.kvs'] at hm; subst hm; exact hacc
  | (_, k, e) :: r, hc, d, hd, acc, hacc, m, hm => by
    simp only [Sem.kvs'] at hm; simp only [Sem.kvsCore, Bool.and_eq_true] at hc
    cases he : Sem.expr d e with
    | none => simp [he] at hm
    | some w =>
      simp only [he] at hm
      exact kvs_json r hc.2 d hd _ (insertKV_json (expr_json e hc.1 d hd w he) hacc) m hm
end

end JmesVerif
