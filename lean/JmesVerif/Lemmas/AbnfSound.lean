import JmesVerif.Spec.Abnf
/-
Soundness of the accepted language with respect to the published ABNF (`Spec/Abnf.lean`):
every tree the parser can build (`Legal`) that uses none of the three language deviations
(F3 `callDev`, F4 multi-select list as a projection's bracket right-hand side, F5 `&e` outside
a function argument) spells a sentence of the published grammar.

The binding-power side conditions of `Legal` play no role (the ABNF is ambiguous: it only says which
token strings are sentences); what is used of `Legal` is: non-empty multi-select lists / hashes,
the head classes of projection right-hand sides (`headIsBracket`, `headIsDot`), and legality of
all sub-trees.
-/
namespace JmesVerif
open GrammarCheck Abnf

/-! ### head classes used in the statements -/

def Nud.isExpref : Nud → Bool
  | .expref _ => true
  | _ => false

def Nud.isMlist : Nud → Bool
  | .mlist _ => true
  | _ => false

/-! ### `Dev` algebra -/

theorem Dev.clean_add (a b : Dev) :
    (a.add b).languageClean ↔ a.languageClean ∧ b.languageClean := by
  simp only [Dev.languageClean, Dev.add]; omega

theorem Dev.clean_empty : ({} : Dev).languageClean := by simp [Dev.languageClean]

theorem Dev.clean_f16 (n : Nat) : ({ f16 := n } : Dev).languageClean := by simp [Dev.languageClean]

theorem Dev.not_clean_f3 : ¬ ({ f3 := 1 } : Dev).languageClean := by simp [Dev.languageClean]

theorem Dev.not_clean_f4 : ¬ ({ f4 := 1 } : Dev).languageClean := by simp [Dev.languageClean]

theorem Dev.not_clean_f5 : ¬ ({ f5 := 1 } : Dev).languageClean := by simp [Dev.languageClean]

/-- outside a function argument: head and applications are clean and the head is not `&e` -/
theorem exprDev_false_clean (h : Nud) (ls : List Led)
    (hd : (exprDev false (.mk h ls)).languageClean) :
    (nudDev h).languageClean ∧ (ledsDev ls).languageClean ∧ h.isExpref = false := by
  cases h <;>
    simp only [exprDev, Dev.clean_add, Bool.false_and, Bool.false_eq_true, if_false] at hd <;>
    first
      | exact ⟨hd.1.1, hd.1.2, rfl⟩
      | exact absurd hd.2 Dev.not_clean_f5

/-- as a function argument: `&e` is allowed as head when nothing is applied to it -/
theorem exprDev_true_clean (h : Nud) (ls : List Led)
    (hd : (exprDev true (.mk h ls)).languageClean) :
    (nudDev h).languageClean ∧ (ledsDev ls).languageClean ∧ (h.isExpref = true → ls = []) := by
  cases h <;> simp only [exprDev, Dev.clean_add, Bool.true_and] at hd <;>
    try exact ⟨hd.1.1, hd.1.2, fun hx => by simp [Nud.isExpref] at hx⟩
  split at hd
  · rename_i he
    simp only [Dev.clean_add] at hd
    exact ⟨hd.1.1, hd.1.2, fun _ => by simpa using he⟩
  · simp only [Dev.clean_add] at hd
    exact absurd hd.2 Dev.not_clean_f5

/-- a clean bracket right-hand side is a clean expression whose head is not a multi-select list -/
theorem rhsDev_bracket_clean (h : Nud) (ls : List Led)
    (hd : (rhsDev (.bracket (.mk h ls))).languageClean) :
    (exprDev false (.mk h ls)).languageClean ∧ h.isMlist = false := by
  cases h <;> simp only [rhsDev, Dev.clean_add] at hd <;>
    first
      | exact ⟨hd.1, rfl⟩
      | exact absurd hd.2 Dev.not_clean_f4

/-! ### small ABNF facts -/

theorem cast_pred {P : List Tok → Prop} {a b : List Tok} (h : P a) (e : a = b) : P b := e ▸ h

theorem optNum_abnf (o : Option Int) : OptNum (optNumToks o) := by
  cases o
  · exact .none
  · exact .some _

theorem slice_bs (h : SliceHdr) : BracketSpecifier (.lbracket :: (h.toks ++ [.rbracket])) := by
  apply BracketSpecifier.slice
  obtain ⟨a, b, c⟩ := h
  cases c with
  | none =>
    exact cast_pred (SliceExpr.two (optNum_abnf a) (optNum_abnf b)) (by simp [SliceHdr.toks])
  | some c =>
    exact cast_pred (SliceExpr.three (optNum_abnf a) (optNum_abnf b) (optNum_abnf c))
      (by simp [SliceHdr.toks])

theorem key_ident (q : Bool) (s : String) : Ident [keyTok q s] := by
  cases q
  · exact .unquoted s
  · exact .quoted s

theorem cmp_comparator (o : Cmp) : Comparator (cmpTok o) := by
  cases o <;> constructor

/-! ### the mutual family -/

mutual
/-- a head other than `&e` is an expression -/
theorem nud_sound : ∀ h : Nud, h.Legal → (nudDev h).languageClean → h.isExpref = false →
    Expression h.toks
  | .at, _, _, _ => by simp only [Nud.toks]; exact .currentNode
  | .field s, _, _, _ => by simp only [Nud.toks]; exact .identifier (.unquoted s)
  | .qfield s, _, _, _ => by simp only [Nud.toks]; exact .identifier (.quoted s)
  | .call s args, hl, hd, _ => by
    simp only [Nud.Legal] at hl
    simp only [nudDev] at hd
    simp only [Nud.toks]
    exact .function (call_sound args s hl hd)
  | .lit v, _, _, _ => by simp only [Nud.toks]; exact .literal v
  | .star r, hl, hd, _ => by
    simp only [Nud.Legal] at hl
    simp only [nudDev] at hd
    simp only [Nud.toks]
    exact cast_pred (rhs_sound r 20 hl hd [.star] .star) (by simp)
  | .idx n, _, _, _ => by simp only [Nud.toks]; exact .bracket (.number n)
  | .slice h r, hl, hd, _ => by
    simp only [Nud.Legal] at hl
    simp only [nudDev] at hd
    simp only [Nud.toks]
    exact cast_pred (rhs_sound r 20 hl hd _ (.bracket (slice_bs h))) (by simp)
  | .wildIdx r, hl, hd, _ => by
    simp only [Nud.Legal] at hl
    simp only [nudDev] at hd
    simp only [Nud.toks]
    exact cast_pred (rhs_sound r 20 hl hd _ (.bracket .star)) (by simp)
  | .mlist es, hl, hd, _ => by
    simp only [Nud.Legal] at hl
    simp only [nudDev] at hd
    simp only [Nud.toks]
    exact .multiSelectList (mlist_sound es hl.1 hl.2.2 hd)
  | .flatten r, hl, hd, _ => by
    simp only [Nud.Legal] at hl
    simp only [nudDev] at hd
    simp only [Nud.toks]
    exact cast_pred (rhs_sound r 9 hl hd _ (.bracket .flatten)) (by simp)
  | .mhash kvs, hl, hd, _ => by
    simp only [Nud.Legal] at hl
    simp only [nudDev] at hd
    simp only [Nud.toks]
    exact .multiSelectHash (mhash_sound kvs hl.1 hl.2 hd)
  | .not e, hl, hd, _ => by
    simp only [Nud.Legal] at hl
    simp only [nudDev] at hd
    simp only [Nud.toks]
    exact .not (expr_sound e 45 hl hd)
  | .filter p r, hl, hd, _ => by
    simp only [Nud.Legal] at hl
    simp only [nudDev, Dev.clean_add] at hd
    simp only [Nud.toks]
    exact cast_pred
      (rhs_sound r 21 hl.2 hd.2 _ (.bracket (.filter (expr_sound p 0 hl.1 hd.1)))) (by simp)
  | .paren e, hl, hd, _ => by
    simp only [Nud.Legal] at hl
    simp only [nudDev] at hd
    simp only [Nud.toks]
    exact .paren (expr_sound e 0 hl hd)
  | .expref _, _, _, hx => by simp [Nud.isExpref] at hx
/-- `&e` as a function argument -/
theorem nud_arg : ∀ h : Nud, h.Legal → (nudDev h).languageClean → h.isExpref = true →
    FunctionArg h.toks
  | .expref e, hl, hd, _ => by
    simp only [Nud.Legal] at hl
    simp only [nudDev] at hd
    simp only [Nud.toks]
    exact .expressionType (expr_sound e 0 hl hd)
  | .at, _, _, hx => by simp [Nud.isExpref] at hx
  | .field _, _, _, hx => by simp [Nud.isExpref] at hx
  | .qfield _, _, _, hx => by simp [Nud.isExpref] at hx
  | .call _ _, _, _, hx => by simp [Nud.isExpref] at hx
  | .lit _, _, _, hx => by simp [Nud.isExpref] at hx
  | .star _, _, _, hx => by simp [Nud.isExpref] at hx
  | .idx _, _, _, hx => by simp [Nud.isExpref] at hx
  | .slice _ _, _, _, hx => by simp [Nud.isExpref] at hx
  | .wildIdx _, _, _, hx => by simp [Nud.isExpref] at hx
  | .mlist _, _, _, hx => by simp [Nud.isExpref] at hx
  | .flatten _, _, _, hx => by simp [Nud.isExpref] at hx
  | .mhash _, _, _, hx => by simp [Nud.isExpref] at hx
  | .not _, _, _, hx => by simp [Nud.isExpref] at hx
  | .filter _ _, _, _, hx => by simp [Nud.isExpref] at hx
  | .paren _, _, _, hx => by simp [Nud.isExpref] at hx
/-- a head that may follow a dot extends what is on the left of the dot (`sub-expression`) -/
theorem nud_dot : ∀ h : Nud, h.Legal → (nudDev h).languageClean → h.isDotHead = true →
    h.isExpref = false → ∀ l : List Tok, Expression l → Expression (l ++ .dot :: h.toks)
  | .field s, _, _, _, _, l, hL => by
    simp only [Nud.toks]; exact .sub hL (.identifier (.unquoted s))
  | .qfield s, _, _, _, _, l, hL => by
    simp only [Nud.toks]; exact .sub hL (.identifier (.quoted s))
  | .call s args, hl, hd, _, _, l, hL => by
    simp only [Nud.Legal] at hl
    simp only [nudDev] at hd
    simp only [Nud.toks]
    exact .sub hL (.function (call_sound args s hl hd))
  | .star r, hl, hd, _, _, l, hL => by
    simp only [Nud.Legal] at hl
    simp only [nudDev] at hd
    simp only [Nud.toks]
    exact cast_pred (rhs_sound r 20 hl hd _ (.sub hL .star)) (by simp)
  | .mhash kvs, hl, hd, _, _, l, hL => by
    simp only [Nud.Legal] at hl
    simp only [nudDev] at hd
    simp only [Nud.toks]
    exact .sub hL (.multiSelectHash (mhash_sound kvs hl.1 hl.2 hd))
  | .expref _, _, _, _, hx, _, _ => by simp [Nud.isExpref] at hx
  | .at, _, _, hb, _, _, _ => by simp [Nud.isDotHead] at hb
  | .lit _, _, _, hb, _, _, _ => by simp [Nud.isDotHead] at hb
  | .idx _, _, _, hb, _, _, _ => by simp [Nud.isDotHead] at hb
  | .slice _ _, _, _, hb, _, _, _ => by simp [Nud.isDotHead] at hb
  | .wildIdx _, _, _, hb, _, _, _ => by simp [Nud.isDotHead] at hb
  | .mlist _, _, _, hb, _, _, _ => by simp [Nud.isDotHead] at hb
  | .flatten _, _, _, hb, _, _, _ => by simp [Nud.isDotHead] at hb
  | .not _, _, _, hb, _, _, _ => by simp [Nud.isDotHead] at hb
  | .filter _ _, _, _, hb, _, _, _ => by simp [Nud.isDotHead] at hb
  | .paren _, _, _, hb, _, _, _ => by simp [Nud.isDotHead] at hb
/-- a bracket head other than a multi-select list extends what is on its left (`index-expression`) -/
theorem nud_br : ∀ h : Nud, h.Legal → (nudDev h).languageClean → h.isBracketHead = true →
    h.isMlist = false → ∀ l : List Tok, Expression l → Expression (l ++ h.toks)
  | .idx n, _, _, _, _, l, hL => by
    simp only [Nud.toks]; exact .index hL (.number n)
  | .slice h r, hl, hd, _, _, l, hL => by
    simp only [Nud.Legal] at hl
    simp only [nudDev] at hd
    simp only [Nud.toks]
    exact cast_pred (rhs_sound r 20 hl hd _ (.index hL (slice_bs h))) (by simp)
  | .wildIdx r, hl, hd, _, _, l, hL => by
    simp only [Nud.Legal] at hl
    simp only [nudDev] at hd
    simp only [Nud.toks]
    exact cast_pred (rhs_sound r 20 hl hd _ (.index hL .star)) (by simp)
  | .filter p r, hl, hd, _, _, l, hL => by
    simp only [Nud.Legal] at hl
    simp only [nudDev, Dev.clean_add] at hd
    simp only [Nud.toks]
    exact cast_pred
      (rhs_sound r 21 hl.2 hd.2 _ (.index hL (.filter (expr_sound p 0 hl.1 hd.1)))) (by simp)
  | .mlist _, _, _, _, hx, _, _ => by simp [Nud.isMlist] at hx
  | .at, _, _, hb, _, _, _ => by simp [Nud.isBracketHead] at hb
  | .field _, _, _, hb, _, _, _ => by simp [Nud.isBracketHead] at hb
  | .qfield _, _, _, hb, _, _, _ => by simp [Nud.isBracketHead] at hb
  | .call _ _, _, _, hb, _, _, _ => by simp [Nud.isBracketHead] at hb
  | .lit _, _, _, hb, _, _, _ => by simp [Nud.isBracketHead] at hb
  | .star _, _, _, hb, _, _, _ => by simp [Nud.isBracketHead] at hb
  | .flatten _, _, _, hb, _, _, _ => by simp [Nud.isBracketHead] at hb
  | .mhash _, _, _, hb, _, _, _ => by simp [Nud.isBracketHead] at hb
  | .not _, _, _, hb, _, _, _ => by simp [Nud.isBracketHead] at hb
  | .paren _, _, _, hb, _, _, _ => by simp [Nud.isBracketHead] at hb
  | .expref _, _, _, hb, _, _, _ => by simp [Nud.isBracketHead] at hb
/-- every application is an ABNF construct applied to everything on its left -/
theorem led_sound : ∀ x : Led, x.Legal → (ledDev x).languageClean →
    ∀ l : List Tok, Expression l → Expression (l ++ x.toks)
  | .dotStar r, hl, hd, l, hL => by
    simp only [Led.Legal] at hl
    simp only [ledDev] at hd
    simp only [Led.toks]
    exact cast_pred (rhs_sound r 20 hl hd _ (.sub hL .star)) (by simp)
  | .dot d, hl, hd, l, hL => by
    simp only [Led.Legal] at hl
    simp only [ledDev] at hd
    simp only [Led.toks]
    exact dot_sound d 40 hl.1 hd l hL
  | .index n, _, _, l, hL => by
    simp only [Led.toks]; exact .index hL (.number n)
  | .sliceL h r, hl, hd, l, hL => by
    simp only [Led.Legal] at hl
    simp only [ledDev] at hd
    simp only [Led.toks]
    exact cast_pred (rhs_sound r 20 hl hd _ (.index hL (slice_bs h))) (by simp)
  | .wildIdxL r, hl, hd, l, hL => by
    simp only [Led.Legal] at hl
    simp only [ledDev] at hd
    simp only [Led.toks]
    exact cast_pred (rhs_sound r 20 hl hd _ (.index hL .star)) (by simp)
  | .or e, hl, hd, l, hL => by
    simp only [Led.Legal] at hl
    simp only [ledDev] at hd
    simp only [Led.toks]
    exact .or hL (expr_sound e 2 hl hd)
  | .and e, hl, hd, l, hL => by
    simp only [Led.Legal] at hl
    simp only [ledDev] at hd
    simp only [Led.toks]
    exact .and hL (expr_sound e 3 hl hd)
  | .pipe e, hl, hd, l, hL => by
    simp only [Led.Legal] at hl
    simp only [ledDev] at hd
    simp only [Led.toks]
    exact .pipe hL (expr_sound e 1 hl hd)
  | .cmp o e, hl, hd, l, hL => by
    simp only [Led.Legal] at hl
    simp only [ledDev] at hd
    simp only [Led.toks]
    exact .comparator hL (cmp_comparator o) (expr_sound e 5 hl hd)
  | .flattenL r, hl, hd, l, hL => by
    simp only [Led.Legal] at hl
    simp only [ledDev] at hd
    simp only [Led.toks]
    exact cast_pred (rhs_sound r 9 hl hd _ (.index hL .flatten)) (by simp)
  | .filterL p r, hl, hd, l, hL => by
    simp only [Led.Legal] at hl
    simp only [ledDev, Dev.clean_add] at hd
    simp only [Led.toks]
    exact cast_pred
      (rhs_sound r 21 hl.2 hd.2 _ (.index hL (.filter (expr_sound p 0 hl.1 hd.1)))) (by simp)
  | .callDev _, _, hd, _, _ => by
    simp only [ledDev, Dev.clean_add] at hd
    exact absurd hd.2 Dev.not_clean_f3
/-- the application list as a whole extends the left token string -/
theorem leds_sound : ∀ (ls : List Led) (rbp f : Nat), chain rbp f ls → (ledsDev ls).languageClean →
    ∀ l : List Tok, Expression l → Expression (l ++ ledsToks ls)
  | [], _, _, _, _, l, hL => by
    simp only [ledsToks]; exact cast_pred hL (by simp)
  | x :: xs, rbp, f, hc, hd, l, hL => by
    simp only [chain] at hc
    simp only [ledsDev, Dev.clean_add] at hd
    simp only [ledsToks]
    exact cast_pred
      (leds_sound xs rbp x.follow hc.2.2.2 hd.2 _ (led_sound x hc.2.2.1 hd.1 l hL)) (by simp)
/-- a projection's right-hand side extends the token string on its left -/
theorem rhs_sound : ∀ (r : Rhs) (k : Nat), r.Legal k → (rhsDev r).languageClean →
    ∀ l : List Tok, Expression l → Expression (l ++ r.toks)
  | .none, _, _, _, l, hL => by
    simp only [Rhs.toks]; exact cast_pred hL (by simp)
  | .dot d, k, hl, hd, l, hL => by
    simp only [Rhs.Legal] at hl
    simp only [rhsDev] at hd
    simp only [Rhs.toks]
    exact dot_sound d k hl hd l hL
  | .bracket e, k, hl, hd, l, hL => by
    simp only [Rhs.Legal] at hl
    simp only [Rhs.toks]
    exact expr_br e k hl.1 hl.2 hd l hL
theorem dot_sound : ∀ (d : DotRhs) (k : Nat), d.Legal k → (dotDev d).languageClean →
    ∀ l : List Tok, Expression l → Expression (l ++ .dot :: d.toks)
  | .mlist es, _, hl, hd, l, hL => by
    simp only [DotRhs.Legal] at hl
    simp only [dotDev] at hd
    simp only [DotRhs.toks]
    exact .sub hL (.multiSelectList (mlist_sound es hl.1 hl.2 hd))
  | .expr e, k, hl, hd, l, hL => by
    simp only [DotRhs.Legal] at hl
    simp only [dotDev] at hd
    simp only [DotRhs.toks]
    exact expr_dot e k hl.1 hl.2 hd l hL
theorem expr_sound : ∀ (e : Expr) (k : Nat), e.Legal k → (exprDev false e).languageClean →
    Expression e.toks
  | .mk h ls, k, hl, hd => by
    obtain ⟨hn, hls, hx⟩ := exprDev_false_clean h ls hd
    simp only [Expr.Legal] at hl
    simp only [Expr.toks]
    exact leds_sound ls k h.follow hl.2.1 hls _ (nud_sound h hl.1 hn hx)
theorem expr_dot : ∀ (e : Expr) (k : Nat), e.Legal k → e.headIsDot = true →
    (exprDev false e).languageClean →
    ∀ l : List Tok, Expression l → Expression (l ++ .dot :: e.toks)
  | .mk h ls, k, hl, hb, hd, l, hL => by
    obtain ⟨hn, hls, hx⟩ := exprDev_false_clean h ls hd
    simp only [Expr.Legal] at hl
    simp only [Expr.headIsDot] at hb
    simp only [Expr.toks]
    exact cast_pred (leds_sound ls k h.follow hl.2.1 hls _ (nud_dot h hl.1 hn hb hx l hL)) (by simp)
theorem expr_br : ∀ (e : Expr) (k : Nat), e.Legal k → e.headIsBracket = true →
    (rhsDev (.bracket e)).languageClean →
    ∀ l : List Tok, Expression l → Expression (l ++ e.toks)
  | .mk h ls, k, hl, hb, hd, l, hL => by
    obtain ⟨hd, hm⟩ := rhsDev_bracket_clean h ls hd
    obtain ⟨hn, hls, _⟩ := exprDev_false_clean h ls hd
    simp only [Expr.Legal] at hl
    simp only [Expr.headIsBracket] at hb
    simp only [Expr.toks]
    exact cast_pred (leds_sound ls k h.follow hl.2.1 hls _ (nud_br h hl.1 hn hb hm l hL)) (by simp)
/-- a function argument: an expression, or `&e` with nothing applied to it -/
theorem arg_sound : ∀ (e : Expr) (k : Nat), e.Legal k → (exprDev true e).languageClean →
    FunctionArg e.toks
  | .mk h ls, k, hl, hd => by
    obtain ⟨hn, hls, hx⟩ := exprDev_true_clean h ls hd
    simp only [Expr.Legal] at hl
    simp only [Expr.toks]
    cases hh : h.isExpref with
    | false => exact .expression (leds_sound ls k h.follow hl.2.1 hls _ (nud_sound h hl.1 hn hh))
    | true =>
      rw [hx hh]
      simp only [ledsToks, List.append_nil]
      exact nud_arg h hl.1 hn hh
/-- `e (, e)*` continued: elements of a multi-select list -/
theorem elemsTail_sound : ∀ es : List Expr, argsLegal es → (argsDev false es).languageClean →
    ∀ e : List Tok, Expression e → ExprList (e ++ argsTail es)
  | [], _, _, e, he => by
    simp only [argsTail]; exact cast_pred (ExprList.one he) (by simp)
  | x :: xs, hl, hd, e, he => by
    simp only [argsLegal] at hl
    simp only [argsDev, Dev.clean_add] at hd
    simp only [argsTail]
    exact .cons he (elemsTail_sound xs hl.2 hd.2 _ (expr_sound x 0 hl.1 hd.1))
/-- `a (, a)*` continued: function arguments -/
theorem fnTail_sound : ∀ es : List Expr, argsLegal es → (argsDev true es).languageClean →
    ∀ a : List Tok, FunctionArg a → ArgList (a ++ argsTail es)
  | [], _, _, a, ha => by
    simp only [argsTail]; exact cast_pred (ArgList.one ha) (by simp)
  | x :: xs, hl, hd, a, ha => by
    simp only [argsLegal] at hl
    simp only [argsDev, Dev.clean_add] at hd
    simp only [argsTail]
    exact .cons ha (fnTail_sound xs hl.2 hd.2 _ (arg_sound x 0 hl.1 hd.1))
theorem call_sound : ∀ (args : List Expr) (s : String), argsLegal args →
    (argsDev true args).languageClean →
    FunctionExpression (.identifier s :: .lparen :: (argsToks args ++ [.rparen]))
  | [], s, _, _ => by
    simp only [argsToks]; exact .noArgs s
  | x :: xs, s, hl, hd => by
    simp only [argsLegal] at hl
    simp only [argsDev, Dev.clean_add] at hd
    simp only [argsToks]
    exact .args s (fnTail_sound xs hl.2 hd.2 _ (arg_sound x 0 hl.1 hd.1))
theorem mlist_sound : ∀ es : List Expr, es ≠ [] → argsLegal es → (argsDev false es).languageClean →
    MultiSelectList (.lbracket :: (argsToks es ++ [.rbracket]))
  | [], hne, _, _ => absurd rfl hne
  | x :: xs, _, hl, hd => by
    simp only [argsLegal] at hl
    simp only [argsDev, Dev.clean_add] at hd
    simp only [argsToks]
    exact .mk (elemsTail_sound xs hl.2 hd.2 _ (expr_sound x 0 hl.1 hd.1))
/-- `k : e (, k : e)*` continued -/
theorem kvsTail_sound : ∀ r : List (Bool × String × Expr), kvsLegal r → (kvsDev r).languageClean →
    ∀ k e : List Tok, Ident k → Expression e → KeyvalList (k ++ .colon :: (e ++ kvsTail r))
  | [], _, _, k, e, hk, he => by
    simp only [kvsTail]; exact cast_pred (KeyvalList.one hk he) (by simp)
  | (q, s, x) :: r, hl, hd, k, e, hk, he => by
    simp only [kvsLegal] at hl
    simp only [kvsDev, Dev.clean_add] at hd
    simp only [kvsTail]
    exact .cons hk he
      (kvsTail_sound r hl.2 hd.2 [keyTok q s] _ (key_ident q s) (expr_sound x 0 hl.1 hd.1))
theorem mhash_sound : ∀ kvs : List (Bool × String × Expr), kvs ≠ [] → kvsLegal kvs →
    (kvsDev kvs).languageClean → MultiSelectHash (.lbrace :: (kvsToks kvs ++ [.rbrace]))
  | [], hne, _, _ => absurd rfl hne
  | (q, s, x) :: r, _, hl, hd => by
    simp only [kvsLegal] at hl
    simp only [kvsDev, Dev.clean_add] at hd
    simp only [kvsToks]
    exact .mk
      (kvsTail_sound r hl.2 hd.2 [keyTok q s] _ (key_ident q s) (expr_sound x 0 hl.1 hd.1))
end

/-- **Soundness of the accepted language with respect to the published ABNF**: every legal tree free of
the deviations F3, F4, F5 spells a sentence of the published grammar. -/
theorem abnf_sound (e : Expr) (rbp : Nat) (hl : e.Legal rbp)
    (hd : (GrammarCheck.exprDev false e).languageClean) : Abnf.Expression e.toks :=
  expr_sound e rbp hl hd

/-- the same for a function argument (where `&e` is grammatical) -/
theorem abnf_sound_arg (e : Expr) (rbp : Nat) (hl : e.Legal rbp)
    (hd : (GrammarCheck.exprDev true e).languageClean) : Abnf.FunctionArg e.toks :=
  arg_sound e rbp hl hd

/-! ### non-vacuity: `a[*].b || !c` -/

/-- the tree of `a[*].b || !c` -/
def abnfExample : Expr :=
  .mk (.field "a")
    [.wildIdxL (.dot (.expr (.mk (.field "b") []))),
     .or (.mk (.not (.mk (.field "c") [])) [])]

theorem abnfExample_toks : abnfExample.toks =
    [.identifier "a", .lbracket, .star, .rbracket, .dot, .identifier "b", .or, .not, .identifier "c"] := by
  simp [abnfExample, Expr.toks, Nud.toks, Led.toks, Rhs.toks, DotRhs.toks, ledsToks]

theorem abnfExample_legal : abnfExample.Legal 0 := by
  simp [abnfExample, Expr.Legal, Nud.Legal, Led.Legal, Rhs.Legal, DotRhs.Legal, chain, callDevOk,
    Led.lbp, Led.follow, Nud.follow, Rhs.follow, DotRhs.follow, Expr.follow, ledsFollow, INF,
    Expr.headIsDot, Nud.isDotHead, Led.isCallDev]

theorem abnfExample_clean : (exprDev false abnfExample).languageClean := by
  simp [abnfExample, exprDev, nudDev, ledDev, ledsDev, rhsDev, dotDev, Dev.add, Dev.languageClean]

/-- the hypotheses of `abnf_sound` hold for `a[*].b || !c`, and its token string is derived -/
theorem abnfExample_sentence : Abnf.Expression
    [.identifier "a", .lbracket, .star, .rbracket, .dot, .identifier "b", .or, .not, .identifier "c"] :=
  abnfExample_toks ▸ abnf_sound abnfExample 0 abnfExample_legal abnfExample_clean

/-! ### the cleanliness hypothesis is not idle: `&a` (deviation F5) is legal but not an ABNF expression -/

/-- no sentence of `expression` is empty or starts with `&` -/
theorem Abnf.Expression.head_ne_ampersand : ∀ (ts : List Tok), Abnf.Expression ts →
    ∃ t r, ts = t :: r ∧ t ≠ .ampersand
  | _, .sub he _ => by
    obtain ⟨t, r, rfl, ht⟩ := Abnf.Expression.head_ne_ampersand _ he
    exact ⟨t, _, rfl, ht⟩
  | _, .index he _ => by
    obtain ⟨t, r, rfl, ht⟩ := Abnf.Expression.head_ne_ampersand _ he
    exact ⟨t, _, rfl, ht⟩
  | _, .bracket hb => by
    cases hb <;> exact ⟨_, _, rfl, by simp⟩
  | _, .comparator he _ _ => by
    obtain ⟨t, r, rfl, ht⟩ := Abnf.Expression.head_ne_ampersand _ he
    exact ⟨t, _, rfl, ht⟩
  | _, .or he _ => by
    obtain ⟨t, r, rfl, ht⟩ := Abnf.Expression.head_ne_ampersand _ he
    exact ⟨t, _, rfl, ht⟩
  | _, .identifier hi => by
    cases hi <;> exact ⟨_, _, rfl, by simp⟩
  | _, .and he _ => by
    obtain ⟨t, r, rfl, ht⟩ := Abnf.Expression.head_ne_ampersand _ he
    exact ⟨t, _, rfl, ht⟩
  | _, .not _ => ⟨_, _, rfl, by simp⟩
  | _, .paren _ => ⟨_, _, rfl, by simp⟩
  | _, .star => ⟨_, _, rfl, by simp⟩
  | _, .multiSelectList hm => by
    cases hm; exact ⟨_, _, rfl, by simp⟩
  | _, .multiSelectHash hm => by
    cases hm; exact ⟨_, _, rfl, by simp⟩
  | _, .literal _ => ⟨_, _, rfl, by simp⟩
  | _, .function hf => by
    cases hf <;> exact ⟨_, _, rfl, by simp⟩
  | _, .pipe he _ => by
    obtain ⟨t, r, rfl, ht⟩ := Abnf.Expression.head_ne_ampersand _ he
    exact ⟨t, _, rfl, ht⟩
  | _, .currentNode => ⟨_, _, rfl, by simp⟩

/-- `&a` at top level: legal (the parser accepts it), flagged F5, and not derivable in the ABNF -/
theorem expref_top_not_abnf :
    (Expr.mk (.expref (.mk (.field "a") [])) []).Legal 0 ∧
    ¬ (exprDev false (.mk (.expref (.mk (.field "a") [])) [])).languageClean ∧
    ¬ Abnf.Expression (Expr.mk (.expref (.mk (.field "a") [])) []).toks := by
  refine ⟨?_, ?_, ?_⟩
  · simp [Expr.Legal, Nud.Legal, chain, callDevOk]
  · simp [exprDev, nudDev, ledsDev, Dev.add, Dev.languageClean]
  · intro h
    obtain ⟨t, r, he, ht⟩ := Abnf.Expression.head_ne_ampersand _ h
    simp [Expr.toks, Nud.toks, ledsToks] at he
    exact ht he.1.symm

end JmesVerif

#print axioms JmesVerif.abnf_sound
#print axioms JmesVerif.abnfExample_sentence
